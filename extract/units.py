"""Proof-unit generation and execution (DESIGN §5).

unit = one emitted function x one contract (x optional property projection).
"""
import json, os, re, subprocess, time, resource

HERE = os.path.dirname(os.path.abspath(__file__))
ROOT = os.path.abspath(os.path.join(HERE, '..'))

# pointer checks are off: every pointer in a unit is either a C++ reference (never null by
# construction of the emitted code) or internal to the shim; the memory-safety obligations of the
# real code are the STL-PRE assertions of the shim (DESIGN §9 C17).
# conversion checks are off: integer conversions are defined (modular / implementation-defined), not UB
CBMC_CHECKS = ['--bounds-check', '--signed-overflow-check',
               '--div-by-zero-check', '--no-standard-checks']


class InfraError(Exception):
    pass


class StructureError(InfraError):
    """the code no longer has the shape the contracts are keyed to (loop added/removed, construct
    without extraction rule): the unit cannot be verified; bin/check replays the clauses natively"""
    pass


def label_of(fname):
    for pat, lab in (('_VLabel', 'VLabel'), ('_NoLabel', 'NoLabel'), ('_uint', 'uint'), ('_real', 'real'),
                     ('DM__', 'uint'), ('UM__', 'uint'), ('DW__', 'real'), ('UW__', 'real')):
        if pat in fname:
            return lab
    return 'NoLabel'


def split_params(sig):
    m = re.match(r'^(.*?)\b(\w+)\((.*)\)$', sig, re.S)
    ret, name, ps = m.group(1).strip(), m.group(2), m.group(3).strip()
    params = []
    if ps and ps != 'void':
        depth, cur = 0, ''
        for ch in ps:
            if ch == '(':
                depth += 1
            elif ch == ')':
                depth -= 1
            if ch == ',' and depth == 0:
                params.append(cur.strip()); cur = ''
            else:
                cur += ch
        params.append(cur.strip())
    out = []
    for p in params:
        m2 = re.match(r'^(.*?)(\w+)$', p)
        out.append((m2.group(1).strip(), m2.group(2)))
    return ret, name, out


def closure(index, specs, fname):
    """functions defined in the unit (f + inline callees) and contract-replaced callees"""
    defined, replaced, todo = [], [], [fname]
    seen = set()
    while todo:
        f = todo.pop()
        if f in seen:
            continue
        seen.add(f)
        ent = index['functions'].get(f)
        if ent is None or ent['status'] != 'ok':
            raise StructureError('function %s needed by unit %s was not extracted: %s' % (
                f, fname, (ent or {}).get('error', 'not instantiated')))
        if ent.get('structure_mismatch'):
            raise StructureError('%s: %s' % (f, ent['structure_mismatch']))
        defined.append(f)
        for c in ent['callees']:
            if c == fname:
                raise InfraError('recursion through %s' % c)
            if c in specs.contracts and c not in specs.inline:
                if c not in replaced:
                    replaced.append(c)
            elif c in specs.inline:
                todo.append(c)
            elif re.search(r'__loop\d+$', c):
                # a nested loop the contracts do not know: the code's loop structure changed
                raise StructureError('callee %s of %s is an outlined loop without a contract (loop structure changed)' % (c, f))
            else:
                raise InfraError('callee %s of %s has neither a contract nor an @inline entry' % (c, f))
    return defined, sorted(replaced)


def contract_text(sig, clauses, prop, linemap, lines, who, enforced=False):
    lines.append(sig)
    for cl in clauses:
        if cl.kind in ('ensures', 'requires') and not cl.enabled(prop):
            continue
        kw = {'requires': '__CPROVER_requires', 'ensures': '__CPROVER_ensures', 'assigns': '__CPROVER_assigns'}[cl.kind]
        # LIFT(c): alignment of the ghost observation points with the arguments.  Proved under the
        # alignment when the function is enforced, used unconditionally when it is replaced (lemma L1-lift:
        # the consequent never mentions G-dependent state and an aligned G exists for all in-range arguments)
        expr = cl.expr.replace('LIFT(', 'BG_LIFT_ENF(' if enforced else 'BG_LIFT_REP(')
        lines.append('  %s(%s)' % (kw, expr))
        linemap[len(lines)] = {'fn': who, 'kind': cl.kind, 'tags': cl.tags, 'name': cl.name, 'src': cl.src,
                               'expr': cl.expr}
    lines.append(';')


def has_top_implication(e):
    depth = 0
    for i, ch in enumerate(e):
        if ch in '([':
            depth += 1
        elif ch in ')]':
            depth -= 1
        elif depth == 0 and e.startswith('==>', i):
            return True
        elif depth == 0 and ch == '?':
            return True
    return False


def split_and(e):
    if has_top_implication(e):
        return [e.strip()]
    out, depth, cur, i = [], 0, '', 0
    while i < len(e):
        ch = e[i]
        if ch in '([':
            depth += 1
        elif ch in ')]':
            depth -= 1
        if depth == 0 and e.startswith('&&', i):
            out.append(cur.strip()); cur = ''; i += 2
            continue
        cur += ch
        i += 1
    out.append(cur.strip())
    return out


def cpp_expand(exprs, label):
    """expand the view macros of a list of expressions with gcc -E (debug aid)"""
    src = ['#define __CPROVER_size_t unsigned long', '#include "abs_types.h"', '#include "view.h"', '#undef ENTRY',
           '#define ENTRY(x) BG_ENTRY_MARK(x)', '#undef OLD', '#define OLD(x) __CPROVER_old(x)']
    for k, e in enumerate(exprs):
        src.append('BGX%d: %s' % (k, e))
    r = subprocess.run(['gcc', '-E', '-P', '-x', 'c', '-DBG_L=%s' % label, '-I', os.path.join(ROOT, 'shim'),
                        '-I', os.path.join(ROOT, 'contracts'), '-'], input='\n'.join(src), stdout=subprocess.PIPE,
                       stderr=subprocess.PIPE, text=True)
    out = {}
    txt = r.stdout
    for m in re.finditer(r'BGX(\d+): (.*?)(?=BGX\d+: |\Z)', txt, re.S):
        out[int(m.group(1))] = ' '.join(m.group(2).split())
    return [out.get(k, e) for k, e in enumerate(exprs)]


def split_and_deep(e):
    """conjuncts, descending into a single enclosing pair of parentheses"""
    res = []
    for c in split_and(e):
        c = c.strip()
        while c.startswith('(') and _matching(c) == len(c) - 1:
            c = c[1:-1].strip()
        sub = split_and(c)
        if len(sub) > 1:
            for x in sub:
                res.extend(split_and_deep(x))
        else:
            res.append(c)
    return res


def _matching(c):
    d = 0
    for i, ch in enumerate(c):
        d += (ch == '(') - (ch == ')')
        if d == 0:
            return i
    return -1


DEBUG_LABEL = ['NoLabel']


def _entry_args(e):
    """occurrences of BG_ENTRY_MARK(<balanced>) in e -> list of (start, end, arg)"""
    out, i = [], 0
    while True:
        i = e.find('BG_ENTRY_MARK(', i)
        if i < 0:
            break
        d, j = 1, i + 14
        while j < len(e) and d:
            d += (e[j] == '(') - (e[j] == ')')
            j += 1
        out.append((i, j, e[i + 14:j - 1]))
        i = j
    return out


def add_debug_asserts(lines):
    """dev aid: assert every conjunct (macros expanded) of every loop invariant before its loop
    (DBG-BASE) and at the end of the loop body (DBG-STEP); loop-entry values snapshotted by hand"""
    res = []
    i, n = 0, len(lines)
    snap_n = [0]
    while i < n:
        ln = lines[i]
        if re.match(r'^\s*(while \(|for \()', ln):
            j = i + 1
            base, step, snaps = [], [], []
            while j < n and (lines[j].strip().startswith('__CPROVER_') or lines[j].strip().startswith('#')):
                m = re.match(r'^\s*__CPROVER_loop_invariant\((.*)\) /\* (\S+)', lines[j])
                if lines[j].strip().startswith('#'):
                    base.append(lines[j])
                    step.append(lines[j])
                if m:
                    expanded = cpp_expand([m.group(1)], DEBUG_LABEL[0])[0]
                    for c in split_and_deep(expanded):
                        msg = c.replace('"', "'").replace('\\', '')[:140]
                        base.append('__CPROVER_assert(%s, "DBG-BASE %s: %s");' % (c.replace('BG_ENTRY_MARK', ''), m.group(2), msg))
                        c2 = c
                        for (s0, e0, arg) in reversed(_entry_args(c)):
                            snap_n[0] += 1
                            v = 'bg_dbg_entry_%d' % snap_n[0]
                            snaps.append('__typeof__(%s) %s = %s;' % (arg, v, arg))
                            c2 = c2[:s0] + v + c2[e0:]
                        step.append('__CPROVER_assert(%s, "DBG-STEP %s: %s");' % (c2, m.group(2), msg))
                j += 1
            res.extend(snaps)
            res.extend(base)
            res.append(ln)
            k = i + 1
            while k < j:
                res.append(lines[k])
                k += 1
            depth, k = 0, j
            while k < n:
                depth += lines[k].count('{') - lines[k].count('}')
                if depth == 0:
                    res.extend(step)
                    res.append(lines[k])
                    break
                res.append(lines[k])
                k += 1
            i = k + 1
            continue
        res.append(ln)
        i += 1
    return res


CANARIES = {'BG-CANARY-END': '0', 'BG-CANARY-PEQ': 'G_P != G_Q', 'BG-CANARY-PLT': '!(G_P < G_Q)',
            'BG-CANARY-PGT': '!(G_P > G_Q)'}


def gen_unit(gen_dir, index, specs, fname, prop, path, extra_harness='', debug=False, canaries=False):
    defined, replaced = closure(index, specs, fname)
    if fname not in specs.contracts:
        raise InfraError('no contract for %s' % fname)
    L = ['/* generated proof unit: enforce %s%s */' % (fname, ' (projection %s)' % prop if prop else ''),
         '#include "abstract.h"', '#include "types.h"', '#include "view.h"']
    for f in defined:
        L.append(index['functions'][f]['sig'] + ';')
    linemap = {}
    contract_text(index['functions'][fname]['sig'], specs.contracts[fname], prop, linemap, L, fname, True)
    for g in replaced:
        ent = index['functions'].get(g)
        if ent is None or ent['status'] != 'ok':
            raise InfraError('callee %s of unit %s was not extracted' % (g, fname))
        contract_text(ent['sig'], specs.contracts[g], prop, linemap, L, g)
    fnlines = {}
    for f in defined:
        text = open(os.path.join(gen_dir, 'fn', f + '.c')).read().rstrip('\n').split('\n')
        if debug:
            DEBUG_LABEL[0] = label_of(fname)
            text = add_debug_asserts(text)
        start = len(L) + 1
        L.extend(text)
        fnlines[f] = (start, len(L))
    # loop-invariant source lines -> clause info
    for f in defined:
        s, e = fnlines[f]
        for i in range(s, e + 1):
            m = re.search(r'/\* (\S+\.spec:\d+) ([\w,]*) \*/\s*$', L[i - 1])
            if m:
                linemap[i] = {'fn': f, 'kind': 'loop', 'tags': [t for t in m.group(2).split(',') if t], 'src': m.group(1),
                              'expr': L[i - 1].strip()}
    ret, name, params = split_params(index['functions'][fname]['sig'])
    L.append('void bg_harness(void) {')
    L.append('  G_P = nondet_vertex(); G_Q = nondet_vertex(); bg_exc = nondet_int();')
    if '__loop' in fname:
        # an outlined loop inherits the cache state of its caller: everything nondeterministic
        L.append('  __CPROVER_havoc_object(&bg_scratch_row); bg_cur_adj = nondet_adjp();')
    else:
        L.append('  bg_scratch_row.valid = nondet_bg_bool(); bg_scratch_row.owner = 0; bg_scratch_row.from = 0; bg_cur_adj = 0;')
    # the frontier is constrained by the contract (detached for most functions, attached for iterator steps)
    L.append('  __CPROVER_havoc_object(&bg_ghost_frontier); bg_ghost_frontier.a = nondet_adjp();')
    for t in ('VLabel', 'NoLabel', 'uint', 'real'):
        L.append('  bg_scratch_val_%s.valid = 0; bg_scratch_val_%s.out = 0;' % (t, t))
    if extra_harness:
        L.append(extra_harness)
    args = []
    for t, n in params:
        L.append('  %s bg_a_%s;' % (t.replace('const ', '') if not t.rstrip().endswith('*') else t, n))
        args.append('bg_a_' + n)
    L.append('  %s(%s);' % (name, ', '.join(args)))
    if canaries:
        # vacuity guards: each of these assertions must FAIL (the end of the call is reachable
        # under the precondition, for every ordering of the observation points)
        for cname, cexpr in CANARIES.items():
            L.append('  __CPROVER_assert(%s, "%s");' % (cexpr, cname))
    L.append('}')
    open(path, 'w').write('\n'.join(L) + '\n')
    return {'defined': defined, 'replaced': replaced, 'linemap': linemap, 'fnlines': fnlines}


def _limit():
    resource.setrlimit(resource.RLIMIT_AS, (12 << 30, 12 << 30))


def run(cmd, timeout, cwd=None):
    t = time.time()
    try:
        r = subprocess.run(cmd, stdout=subprocess.PIPE, stderr=subprocess.PIPE, text=True, timeout=timeout,
                           cwd=cwd, preexec_fn=_limit)
        return r.returncode, r.stdout, r.stderr, time.time() - t
    except subprocess.TimeoutExpired as e:
        return None, (e.stdout or b'').decode() if isinstance(e.stdout, bytes) else (e.stdout or ''), 'TIMEOUT', time.time() - t


def run_unit(gen_dir, index, specs, fname, prop, work, timeout=300, solver='cadical', defines=(), keep=False,
             extra_harness='', extra_cbmc=(), debug=False, canaries=False):
    """returns dict(status=ok|fail|infra, obligations, failures[], time, detail)"""
    os.makedirs(work, exist_ok=True)
    unit_name = fname
    gcc_extra = []
    if '@' in fname:
        # byte-level variants of the binary codec units: <function>@le / @be = little / big endian machine model
        fname, variant = fname.split('@', 1)
        if variant not in ('le', 'be'):
            raise ValueError('unknown unit variant ' + variant)
        defines = tuple(defines) + ('BG_STREAM_BYTES', 'BG_HOST_BIG_ENDIAN=%d' % (variant == 'be'))
        gcc_extra = ['--big-endian' if variant == 'be' else '--little-endian']
    tag = unit_name.replace('@', '.') + ('.' + prop if prop else '')
    cfile = os.path.join(work, tag + '.c')
    res = {'unit': unit_name, 'prop': prop, 'status': 'infra', 'obligations': 0, 'discharged': 0, 'failures': [],
           'solver_s': 0.0, 'backend': solver}
    try:
        info = gen_unit(gen_dir, index, specs, fname, prop, cfile, extra_harness, debug, canaries)
    except StructureError as e:
        res['status'] = 'structure'
        res['detail'] = str(e)
        return res
    except InfraError as e:
        res['detail'] = str(e)
        return res
    gb, gb2 = os.path.join(work, tag + '.gb'), os.path.join(work, tag + '.i.gb')
    defs = ['-DBG_ABSTRACT', '-DBG_L=%s' % label_of(fname), '-DBG_PROP_%s' % (prop or 'ALL')] + ['-D' + d for d in defines]
    rc, so, se, dt = run(['goto-cc', '-I', os.path.join(ROOT, 'shim'), '-I', gen_dir, '-I', os.path.join(ROOT, 'contracts')]
                         + defs + gcc_extra + ['--function', 'bg_harness', cfile, os.path.join(ROOT, 'shim', 'abstract_globals.c'),
                                   '-o', gb], 120)
    if rc != 0:
        res['detail'] = 'goto-cc failed: ' + (se or so)[-2000:]
        if 'failed to find symbol' in (se or so) or 'undeclared' in (se or so):
            # a contract names a variable the code no longer has: the code's shape changed
            res['status'] = 'structure'
        return res
    cmd = ['goto-instrument', '--dfcc', 'bg_harness', '--enforce-contract', fname]
    for g in info['replaced']:
        cmd += ['--replace-call-with-contract', g]
    cmd += ['--apply-loop-contracts', gb, gb2]
    rc, so, se, dt = run(cmd, 300)
    if rc != 0:
        res['detail'] = 'goto-instrument failed: ' + (se or so)[-3000:]
        return res
    cb = ['cbmc', gb2, '--object-bits', '12'] + CBMC_CHECKS + ['--json-ui'] + list(extra_cbmc)
    if solver == 'cadical':
        cb += ['--sat-solver', 'cadical']
    elif solver == 'kissat':
        cb += ['--external-sat-solver', 'kissat']
    elif solver == 'minisat':
        pass
    rc, so, se, dt = run(cb, timeout)
    res['solver_s'] = round(dt, 2)
    res['cmd'] = ' '.join(cmd) + ' && ' + ' '.join(cb)
    if rc is None:
        res['detail'] = 'cbmc timeout after %ds' % timeout
        res['status'] = 'timeout'
        return res
    try:
        js = json.loads(so)
    except Exception:
        res['detail'] = 'cbmc output not JSON (rc=%s): %s' % (rc, (so or se)[-1500:])
        return res
    results = None
    msgs = []
    for item in js:
        if 'result' in item:
            results = item['result']
        if 'messageText' in item:
            msgs.append(item['messageText'])
    if results is None:
        res['detail'] = 'no result in cbmc output: ' + ' | '.join(msgs[-8:])
        return res
    bad_msgs = [m for m in msgs if 'ignoring' in m or 'no body for' in m]
    fails = []
    canary_dead = []
    n_loop_step = 0
    n_post = 0
    for r in results:
        desc = r.get('description', '')
        pname = r.get('property', '')
        if 'loop_invariant_step' in pname or 'invariant after step' in desc:
            n_loop_step += 1
        if 'postcondition' in pname or 'ensures' in desc:
            n_post += 1
        if desc in CANARIES:
            if r.get('status') == 'FAILURE':
                res['canaries_ok'] = res.get('canaries_ok', 0) + 1
            else:
                canary_dead.append(desc)
            continue
        if r.get('status') != 'SUCCESS':
            loc = r.get('sourceLocation', {})
            line = int(loc.get('line', 0) or 0)
            same = os.path.basename(loc.get('file', '')) == os.path.basename(cfile)
            cl = info['linemap'].get(line) if same else None
            fails.append({'property': pname, 'description': desc, 'file': loc.get('file'), 'line': line,
                          'function': loc.get('function'), 'clause': cl, 'status': r.get('status'),
                          'trace': r.get('trace')})
    ncan = res.get('canaries_ok', 0) + len(canary_dead)
    res['obligations'] = len(results) - ncan
    res['discharged'] = len(results) - ncan - len(fails)
    res['failures'] = fails
    res['n_loop_step'] = n_loop_step
    res['n_post'] = n_post
    res['replaced'] = info['replaced']
    res['defined'] = info['defined']
    res['warnings'] = bad_msgs
    nloops = sum(index['functions'][f]['loops'] for f in info['defined'])
    has_loop_contract = any((f, k) in specs.loops for f in info['defined'] for k in range(1, 50))
    if bad_msgs:
        res['status'] = 'infra'
        res['detail'] = 'cbmc warnings: ' + '; '.join(m[:200] for m in bad_msgs[:3])
    elif canary_dead:
        res['status'] = 'infra'
        res['detail'] = 'vacuous unit: canaries not reachable: %s' % ','.join(canary_dead)
    elif has_loop_contract and n_loop_step == 0:
        res['status'] = 'infra'
        res['detail'] = 'loop contract silently dropped (no loop_invariant_step obligation)'
    elif nloops and not has_loop_contract:
        res['status'] = 'structure'
        res['detail'] = 'unit has %d loop(s) without loop contract' % nloops
    elif n_post == 0 and any(c.kind == 'ensures' and c.enabled(prop) for c in specs.contracts[fname]):
        res['status'] = 'infra'
        res['detail'] = 'no postcondition obligation generated'
    else:
        res['status'] = 'ok' if not fails else 'fail'
    if not keep:
        for f in (gb, gb2):
            try:
                os.remove(f)
            except OSError:
                pass
    return res
