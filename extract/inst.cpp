#include "BaseGraph/directed_graph.hpp"
#include "BaseGraph/undirected_graph.hpp"
#include "BaseGraph/directed_multigraph.hpp"
#include "BaseGraph/undirected_multigraph.hpp"
#include "BaseGraph/directed_weighted_graph.hpp"
#include "BaseGraph/undirected_weighted_graph.hpp"
#include "BaseGraph/algorithms/paths.hpp"
#include "BaseGraph/algorithms/topology.hpp"
#include "BaseGraph/fileio.hpp"
struct VLabel { int v; bool operator==(const VLabel&o) const {return v==o.v;} };
namespace BaseGraph {
template class LabeledDirectedGraph<VLabel>;
template class LabeledDirectedGraph<NoLabel>;
template class LabeledUndirectedGraph<VLabel>;
template class LabeledUndirectedGraph<NoLabel>;
template class LabeledDirectedGraph<EdgeMultiplicity>;
template class LabeledUndirectedGraph<EdgeMultiplicity>;
template class LabeledDirectedGraph<EdgeWeight>;
template class LabeledUndirectedGraph<EdgeWeight>;
}
// ---- free function templates (algorithms)
namespace BaseGraph { namespace algorithms {
template LabeledDirectedGraph<VLabel> getSubgraph<LabeledDirectedGraph, VLabel>(const LabeledDirectedGraph<VLabel> &, const std::unordered_set<VertexIndex> &);
template LabeledUndirectedGraph<VLabel> getSubgraph<LabeledUndirectedGraph, VLabel>(const LabeledUndirectedGraph<VLabel> &, const std::unordered_set<VertexIndex> &);
template LabeledDirectedGraph<NoLabel> getSubgraph<LabeledDirectedGraph, NoLabel>(const LabeledDirectedGraph<NoLabel> &, const std::unordered_set<VertexIndex> &);
template LabeledUndirectedGraph<NoLabel> getSubgraph<LabeledUndirectedGraph, NoLabel>(const LabeledUndirectedGraph<NoLabel> &, const std::unordered_set<VertexIndex> &);
}}
// ---- binary edge-list codec and loaders / writers (fileio.hpp)
namespace BaseGraph { namespace io {
template void swapBytes<unsigned int>(unsigned int &);
template void writeBinaryValue<unsigned int>(std::ofstream &, unsigned int);
template std::ifstream &readBinaryValue<unsigned int>(std::ifstream &, unsigned int &);
template LabeledDirectedGraph<NoLabel> loadBinaryEdgeList<LabeledDirectedGraph, NoLabel>(const std::string &);
template LabeledUndirectedGraph<NoLabel> loadBinaryEdgeList<LabeledUndirectedGraph, NoLabel>(const std::string &);
template void writeBinaryEdgeList<LabeledDirectedGraph, NoLabel>(const LabeledDirectedGraph<NoLabel> &, const std::string &);
template void writeBinaryEdgeList<LabeledUndirectedGraph, NoLabel>(const LabeledUndirectedGraph<NoLabel> &, const std::string &);
}}
// ---- breadth-first predecessor searches (paths.hpp)
namespace BaseGraph { namespace algorithms {
template Predecessors findVertexPredecessors<LabeledDirectedGraph, NoLabel>(const LabeledDirectedGraph<NoLabel> &, VertexIndex);
template Predecessors findVertexPredecessors<LabeledUndirectedGraph, NoLabel>(const LabeledUndirectedGraph<NoLabel> &, VertexIndex);
template MultiplePredecessors findAllVertexPredecessors<LabeledDirectedGraph, NoLabel>(const LabeledDirectedGraph<NoLabel> &, VertexIndex);
}}
// ---- edge-sequence constructors (C09)
namespace BaseGraph {
template LabeledDirectedGraph<NoLabel>::LabeledDirectedGraph(const std::list<Edge> &, long long *);
template LabeledUndirectedGraph<NoLabel>::LabeledUndirectedGraph(const std::list<Edge> &, long long *);
template LabeledDirectedGraph<VLabel>::LabeledDirectedGraph(const std::list<LabeledEdge<VLabel>> &);
template LabeledUndirectedGraph<VLabel>::LabeledUndirectedGraph(const std::list<LabeledEdge<VLabel>> &);
}
