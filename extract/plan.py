"""Which proof units decide which property, evidence constants (DESIGN §5, §6)."""
import re

PROOF = {'C01', 'C02', 'C03', 'C04', 'C05', 'C06', 'C07', 'C08', 'C09', 'C10', 'C14', 'C15', 'C16', 'C17', 'C18', 'C19'}


# a property about one class family is served by that family's units (shared aliases tag more)
CLASS_FILTER = {'C01': r'^LDG_', 'C02': r'^LUG_', 'C03': r'^L[DU]G_(VLabel|uint|real)_', 'C04': r'^(DM|UM)__',
                'C05': r'^(DW|UW)__'}


# units whose contracts state more than the property demands (per-vertex 'enqueued at most once' where C19
# only bounds the total): see bin/check
STRONGER_THAN_PROPERTY = ()
# bounded stand-ins (native, exhaustive up to the stated bound), run on every check of the property
BOUNDED = {'C19': [('findAllVertexPredecessors#scans<=V+E', 'replay_findall',
                     'every simple directed graph with <= 4 vertices and the first 400000 with 5 (every source), ladders of '
                     'completely connected layers of width 2-3 with up to 10 layers (every source), 20000 pseudo-random '
                     'digraphs with 6-9 vertices: neighbourhood scans counted through a graph type that shadows getOutNeighbours')]}
CODEC_UNITS = ('swapBytes', '_isSystemBigEndian', 'readBinaryValue', 'writeBinaryValue')


def level_of(prop):
    return 'proof' if prop in PROOF else 'model_checking'


def serves(prop, fname, clauses):
    """a unit serves a property iff its contract has a clause tagged with it"""
    for cl in clauses:
        if cl.kind == 'ensures' and prop in cl.tags:
            return True
    return False


def is_const_unit(clauses):
    for cl in clauses:
        if cl.kind == 'assigns':
            return 'D_FRAME(' not in cl.expr and 'U_FRAME(' not in cl.expr and '*this' not in cl.expr and 'FRAME_MUT' not in cl.expr
    return False


def units_for(prop, sp, index, tier='quick'):
    out = []
    for fname, clauses in sorted(sp.contracts.items()):
        if fname in sp.inline:
            continue
        if prop == 'C17':
            ok = True                       # every unit, valid inputs
        elif prop == 'C18':
            ok = is_const_unit(clauses)     # empty frame on every const entry point
        else:
            ok = serves(prop, fname, clauses)
        if ok and prop in CLASS_FILTER and not re.match(CLASS_FILTER[prop], fname):
            ok = False                      # the property is about one class family; callees come in by closure
        if ok and tier == 'quick' and re.match(r'^L[DU]G_(uint|real)_', fname):
            # quick tier: the base-class proofs are served by the opaque label and NoLabel (A-PARAM); the
            # unsigned/double instantiations are enforced where a multigraph / weighted unit relies on them
            # (closure below) and, all of them, in the thorough tier
            ok = False
        if ok:
            out.append(fname)
    # self-contained projections: every contract a served unit relies on (replaced callees, transitively
    # through inlined functions) is itself enforced in the same projection
    seen, todo = set(out), list(out)
    fns = index['functions']
    while todo:
        f = todo.pop()
        stack, visited = [f], set()
        while stack:
            g = stack.pop()
            if g in visited:
                continue
            visited.add(g)
            for c in fns.get(g, {}).get('callees', []):
                if c in sp.inline:
                    stack.append(c)
                elif c in sp.contracts and c not in seen:
                    seen.add(c)
                    out.append(c)
                    todo.append(c)
    # the binary codec functions are also proved at byte level under both machine byte orders
    for f in list(out):
        if f in CODEC_UNITS:
            out += [f + '@le', f + '@be']
    return sorted(out)


ASSUMPTIONS = [
    'A-STL: libstdc++ containers behave as shim/abstract.h says (every __CPROVER_assume in the shim is a fact '
    'of the abstraction function: partition axioms of the class counters, sums >= summands, B-LEN caps); '
    'supported by the shim conformance test, not proved',
    'A-EXTRACT: extract/bgx.py translates the clang AST faithfully (must-fire rules, abort otherwise); supported by '
    'translation validation against the real headers, not proved',
    'A-PARAM: a proof for the opaque label VLabel (==, copy, default construction only) holds for every label type '
    'whose == is an equivalence',
    'A-REAL: EdgeWeight / long double arithmetic is treated as exact integer arithmetic in the unbounded tier',
    'B-LEN: no adjacency list longer than 2^40 entries, fewer than 2^40 edges in total (ghost counter range)',
    'B-SIZE: vertex count <= 2^32-1 (VertexIndex range)',
    'L1: emitted code never reads the ghost observation points G_P,G_Q, so a proof for unconstrained G_P,G_Q is a '
    'proof for all pairs (identifier scan on every extraction)',
    'L3: induction over call histories from constructor + invariant preservation (paper lemma)',
    'projection: each property is decided on the projection of every contract onto the clauses tagged with it; '
    'callee contracts are projected the same way, so each projection is a self-contained modular proof',
    'pointer checks are not enabled: pointers in a unit are C++ references or shim-internal; memory safety of the '
    'real code is the STL-PRE assertions of the shim',
    'termination: only loops carrying a decreases clause are proved terminating',
    'trusted: cbmc 6.11.0, goto-instrument dfcc, CaDiCaL, clang 14',
]

# assumptions that concern one property only (appended to ASSUMPTIONS in its evidence)
EXTRA_ASSUMPTIONS = {
    'C17': [
        'A-REF: the shim keeps the observed cells of an unordered_map (and the scratch cell) allocated across '
        'erase/clear, so a C++ reference into a map node that the code erases and then READS is not reported: '
        'dangling references into erased map nodes are outside the STL-PRE assertions (iterators are covered by the '
        'cursor model; references are not).  Seeded change s17 (UndirectedMultigraph::removeMultiedge reads '
        'currentMultiplicity after edgeLabels.erase) is therefore NOT detected',
    ],
}

EXTRACTION_DROPS = [
    'templates -> explicit instantiations VLabel / NoLabel / unsigned (multiplicity) / double (weight)',
    'this -> first parameter; references -> pointers; overloads -> suffix by arity',
    'exceptions -> global bg_exc + early return; message operand of throw dropped, type kept',
    'STL objects -> ghost-counter shim types; STL calls -> shim calls with the standard preconditions as assertions',
    'dropped: operator<< printers, comments, access control, destructors of locals, python bindings',
    'nested loops outlined into <function>__loop<k> (semantics preserving; return inside nested loop has no rule)',
    'every call into BaseGraph code hoisted into its own statement left-to-right; short-circuit operators lowered to if',
]
