#!/usr/bin/env python3
"""bgx: mechanical extraction of BaseGraph C++ functions to C (DESIGN.md §3).

Input : clang's JSON AST of an instantiation TU built from /repo's headers.
Output: C text for every instantiated BaseGraph function, one must-fire rule
        per AST node kind / resolved callee.  No rule => ExtractError naming
        the node: the extractor never guesses and never skips a statement.

Conventions of the emitted C
  * C++ reference (parameter, variable, return)  -> C pointer
  * `this`                                       -> first parameter `this`
  * exceptions                                   -> global bg_exc + early return
    (after every call that may throw: `if (bg_exc) <unwind>;`)
  * std:: containers                             -> shim types/functions
    `bg_<typetag>__<method>` (shim/abstract.h or shim/concrete.h)
  * every call into BaseGraph code or a throwing shim function is hoisted into
    its own statement (left-to-right), short-circuit operators are lowered to
    `if` when their right operand needs hoisting.
"""
import json
import re
import sys


class ExtractError(Exception):
    pass


# ----------------------------------------------------------------------------
# AST loading
# ----------------------------------------------------------------------------
def load_ast(path):
    dec = json.JSONDecoder()
    s = open(path).read()
    i, objs = 0, []
    n = len(s)
    while i < n:
        while i < n and s[i].isspace():
            i += 1
        if i >= n:
            break
        o, j = dec.raw_decode(s, i)
        objs.append(o)
        i = j
    return objs


def inner(n):
    return [c for c in n.get('inner', []) if not c.get('kind', '').endswith('Comment')]


# ----------------------------------------------------------------------------
# type normalisation
# ----------------------------------------------------------------------------
ALIASES = [
    (r'\bstd::__cxx11::', 'std::'),
    (r'\bBaseGraph::algorithms::', ''),
    (r'\bBaseGraph::io::', ''),
    (r'\bBaseGraph::', ''),
    (r'\bstruct ', ''),
    (r'\bclass ', ''),
    (r'\bVertexIndex\b', 'unsigned int'),
    (r'\bEdgeMultiplicity\b', 'unsigned int'),
    (r'\bEdgeWeight\b', 'double'),
    (r'\bstd::size_t\b', 'unsigned long'),
    (r'\bsize_t\b', 'unsigned long'),
    (r'\bstd::vector::size_type\b', 'unsigned long'),
    (r'\bstd::list::size_type\b', 'unsigned long'),
    (r'\bsize_type\b', 'unsigned long'),
    (r'\blong long int\b', 'long long'),
    (r'\bAdjacencyLists\b', 'std::vector<std::list<unsigned int>>'),
    (r'\bAdjacencyMatrix\b', 'std::vector<std::vector<unsigned long>>'),
    (r'\bWeightMatrix\b', 'std::vector<std::vector<double>>'),
    (r'\bSuccessors\b', 'std::list<unsigned int>'),
    (r'\bMultiplePredecessors\b',
     'std::pair<std::vector<unsigned long>, std::vector<std::list<unsigned int>>>'),
    (r'\bPredecessors\b', 'std::pair<std::vector<unsigned long>, std::vector<unsigned int>>'),
    (r'\bMultiplePaths\b', 'std::list<std::list<unsigned int>>'),
    (r'\bPath\b', 'std::list<unsigned int>'),
    (r'(?<![\w:])list<Edge>', 'std::list<std::pair<unsigned int, unsigned int>>'),
    (r'(?<![\w:])list<LabeledEdge<VLabel>>', 'std::list<std::tuple<unsigned int, unsigned int, VLabel>>'),
    (r'(?<![\w:<])Edge\b(?!s)', 'std::pair<unsigned int, unsigned int>'),
    (r'\bhashEdge\b', 'hashEdge'),
    (r'std::_List_const_iterator<unsigned int>', 'std::list<unsigned int>::iterator'),
    (r'std::_List_iterator<unsigned int>', 'std::list<unsigned int>::iterator'),
    (r'std::list<unsigned int>::const_iterator', 'std::list<unsigned int>::iterator'),
    (r', std::allocator<[^<>]*(<[^<>]*>)?[^<>]*>', ''),
]


def split_top(s, sep=','):
    out, depth, cur = [], 0, ''
    for ch in s:
        if ch in '<([':
            depth += 1
        elif ch in '>)]':
            depth -= 1
        if ch == sep and depth == 0:
            out.append(cur.strip())
            cur = ''
        else:
            cur += ch
    if cur.strip():
        out.append(cur.strip())
    return out


def norm_type_str(s):
    """Normalise a clang type spelling (no cv/ref handling)."""
    s = s.strip()
    # typename std::enable_if<C, T>::type  -> T   (void if absent)
    m = re.match(r'^typename std::enable_if<(.*)>::type$', s)
    if m:
        parts = split_top(m.group(1))
        s = parts[1] if len(parts) > 1 else 'void'
    m = re.match(r'^__gnu_cxx::__alloc_traits<(.*)>::value_type$', s)
    if m:
        s = split_top(m.group(1))[1]
    m = re.match(r'^std::unordered_map<(.*)>::(mapped_type|key_type)$', s)
    if m:
        s = split_top(m.group(1))[1 if m.group(2) == 'mapped_type' else 0]
    m = re.match(r'^std::(vector|list)<(.*)>::value_type$', s)
    if m:
        s = split_top(m.group(2))[0]
    for pat, rep in ALIASES:
        s = re.sub(pat, rep, s)
    s = re.sub(r'\s+', ' ', s).strip()
    s = s.replace('> >', '>>')
    return s


class CType:
    """A resolved type: base C type name + reference/pointer/const flags."""

    def __init__(self, base, cname, is_ref=False, is_const=False, ptr=0, info=None):
        self.base = base      # normalised C++ spelling
        self.cname = cname    # C type
        self.is_ref = is_ref
        self.is_const = is_const
        self.ptr = ptr
        self.info = info or {}

    def decl(self, name=''):
        c = ('const ' if self.is_const and (self.is_ref or self.ptr) else '') + self.cname
        stars = '*' * (self.ptr + (1 if self.is_ref else 0))
        return (c + ' ' + stars + name).rstrip()

    def value_decl(self, name=''):
        """declaration of a by-value object of this type (refs dropped)"""
        return (self.cname + ' ' + '*' * self.ptr + name).rstrip()


def parse_cv_ref(s):
    s = s.strip()
    is_ref = False
    ptr = 0
    is_const = False
    while True:
        if s.endswith('&&'):
            s = s[:-2].strip()
            is_ref = True
        elif s.endswith('&'):
            s = s[:-1].strip()
            is_ref = True
        elif s.endswith('*const'):
            s = s[:-6].strip()
            ptr += 1
        elif s.endswith('*'):
            s = s[:-1].strip()
            ptr += 1
        else:
            break
    if s.startswith('const '):
        s = s[6:].strip()
        is_const = True
    if s.endswith(' const'):
        s = s[:-6].strip()
        is_const = True
    return s, is_ref, is_const, ptr


# ----------------------------------------------------------------------------
# configuration tables (must-fire)
# ----------------------------------------------------------------------------
SCALARS = {
    'unsigned int': 'VertexIndex',
    'unsigned long': 'bg_size',
    'bool': 'bg_bool',
    'int': 'int',
    'long': 'long',
    'long long': 'long long',
    'unsigned long long': 'unsigned long long',
    'unsigned char': 'unsigned char',
    'char': 'char',
    'double': 'bg_real',        # A-REAL (unbounded tier)
    'long double': 'bg_real',   # A-REAL
    'void': 'void',
    'std::_Ios_Openmode': 'int',
}

LABELS = {
    'VLabel': 'VLabel',
    'NoLabel': 'NoLabel',
    'unsigned int': 'uint',
    'double': 'real',
}

# STL types -> (C type, tag)
STL = {
    'std::pair<unsigned int, unsigned int>': ('bg_edge', 'edge'),
    'std::list<unsigned int>': ('bg_list', 'list_u'),
    'std::list<unsigned int>::iterator': ('bg_it', 'it_u'),
    'std::vector<std::list<unsigned int>>': ('bg_adj', 'vec_list_u'),
    'std::set<unsigned int>': ('bg_set_u', 'set_u'),
    'std::vector<unsigned long>': ('bg_vec_sz', 'vec_sz'),
    'std::vector<unsigned int>': ('bg_vec_u', 'vec_u'),
    'std::vector<bool>': ('bg_vec_b', 'vec_b'),
    'std::vector<double>': ('bg_vec_real', 'vec_real'),
    'std::vector<std::vector<unsigned long>>': ('bg_mat_sz', 'mat_sz'),
    'std::vector<std::vector<double>>': ('bg_mat_real', 'mat_real'),
    'std::queue<unsigned int>': ('bg_queue_u', 'queue_u'),
    'std::queue<unsigned int, std::deque<unsigned int>>': ('bg_queue_u', 'queue_u'),
    'std::unordered_set<unsigned int>': ('bg_uset_u', 'uset_u'),
    'std::unordered_map<unsigned int, unsigned int>': ('bg_umap_uu', 'umap_uu'),
    'std::__detail::_Node_const_iterator<unsigned int, true, false>': ('bg_uset_it', 'uset_it'),
    'std::__detail::_Node_iterator<unsigned int, true, false>': ('bg_uset_it', 'uset_it'),
    'std::unordered_set<unsigned int>::const_iterator': ('bg_uset_it', 'uset_it'),
    'std::unordered_set<unsigned int>::iterator': ('bg_uset_it', 'uset_it'),
    'std::__detail::_Node_iterator_base<unsigned int, false>': ('bg_uset_it', 'uset_it'),
    'std::pair<std::vector<unsigned long>, std::vector<unsigned int>>': ('bg_preds', 'preds'),
    'std::deque<unsigned int>': ('bg_queue_u', 'queue_u'),
    'std::pair<std::vector<unsigned long>, std::vector<std::list<unsigned int>>>': ('bg_mpreds', 'mpreds'),
    'std::_Bit_reference': ('bg_bitref', 'bitref'),
    'std::vector<bool>::reference': ('bg_bitref', 'bitref'),
    'std::tuple<unsigned int, unsigned int, VLabel>': ('bg_ledge_VLabel', 'ledge_VLabel'),
    'std::tuple<unsigned int, unsigned int, unsigned int>': ('bg_ledge_uint', 'ledge_uint'),
    'std::tuple<unsigned int, unsigned int, double>': ('bg_ledge_real', 'ledge_real'),
    'std::list<std::pair<unsigned int, unsigned int>>': ('bg_edgeseq', 'edgeseq'),
    'list<Edge>': ('bg_edgeseq', 'edgeseq'),
    'list<LabeledEdge<VLabel>>': ('bg_ledgeseq_VLabel', 'ledgeseq_VLabel'),
    'LabeledEdge<VLabel>': ('bg_ledge_VLabel', 'ledge_VLabel'),
    'std::list<std::tuple<unsigned int, unsigned int, VLabel>>': ('bg_ledgeseq_VLabel', 'ledgeseq_VLabel'),
    'std::list<std::tuple<unsigned int, unsigned int, unsigned int>>': ('bg_ledgeseq_uint', 'ledgeseq_uint'),
    'std::list<std::pair<unsigned int, unsigned int>>::iterator': ('bg_edgeseq_it', 'edgeseq_it'),
    'std::_List_const_iterator<std::pair<unsigned int, unsigned int>>': ('bg_edgeseq_it', 'edgeseq_it'),
    'std::_List_const_iterator<std::tuple<unsigned int, unsigned int, VLabel>>': ('bg_ledgeseq_VLabel_it', 'ledgeseq_VLabel_it'),
    'std::_List_const_iterator<std::tuple<unsigned int, unsigned int, unsigned int>>': ('bg_ledgeseq_uint_it', 'ledgeseq_uint_it'),
    'std::ifstream': ('bg_ifstream', 'ifstream'),
    'std::ofstream': ('bg_ofstream', 'ofstream'),
    'std::basic_ifstream<char>': ('bg_ifstream', 'ifstream'),
    'std::basic_istream<char>': ('bg_ifstream', 'ifstream'),
    'std::basic_ostream<char>': ('bg_ofstream', 'ofstream'),
    'std::basic_ios<char>': ('bg_ios', 'ios'),
    'std::basic_ofstream<char>': ('bg_ofstream', 'ofstream'),
    'std::string': ('bg_string', 'string'),
    'std::basic_string<char>': ('bg_string', 'string'),
}
for _k, _t in LABELS.items():
    STL['std::unordered_map<std::pair<unsigned int, unsigned int>, %s, hashEdge>' % _k] = (
        'bg_map_' + _t, 'map_' + _t)

# BaseGraph record short names
RECORD_SHORT = {
    'LabeledDirectedGraph': 'LDG',
    'LabeledUndirectedGraph': 'LUG',
    'DirectedMultigraph': 'DM',
    'UndirectedMultigraph': 'UM',
    'DirectedWeightedGraph': 'DW',
    'UndirectedWeightedGraph': 'UW',
    'VertexIterator': 'VIt',
    'Edges': 'Edges',
    'constEdgeIterator': 'EIt',
    'VertexCountMapper': 'VCM',
}

OPNAMES = {
    'operator==': 'eq', 'operator!=': 'ne', 'operator[]': 'index',
    'operator*': 'deref', 'operator=': 'assign', 'operator()': 'call',
    'operator+=': 'addassign', 'operator-=': 'subassign', 'operator<': 'lt',
    'operator bool': 'tobool', 'operator!': 'not', 'operator>>': 'shr', 'operator<<': 'shl',
}

# shim functions that may set bg_exc (hoisted + checked)
SHIM_THROWS = {'at', 'at_c', 'substr', 'stoi'}

EXC_KINDS = {
    'std::out_of_range': 'BG_OUT_OF_RANGE',
    'std::invalid_argument': 'BG_INVALID_ARGUMENT',
    'std::runtime_error': 'BG_RUNTIME_ERROR',
}


# ----------------------------------------------------------------------------
class Program:
    """Index of the AST: records, functions, ids."""

    def __init__(self, objs):
        self.by_id = {}
        self.parent = {}
        self.records = {}     # normalised C++ name -> record info
        self.funcs = {}       # decl id -> FuncInfo
        self.func_by_cname = {}
        self.errors = []
        self.aliases = {}
        for o in objs:
            self._index(o, None)
        for o in objs:
            self._collect(o, [])
        self._name_functions()

    def _index(self, n, parent):
        if 'id' in n:
            # keep the node that has a body / more content
            old = self.by_id.get(n['id'])
            if old is None or len(n.get('inner', [])) > len(old.get('inner', [])):
                self.by_id[n['id']] = n
            self.parent[n['id']] = parent
        for c in n.get('inner', []):
            self._index(c, n)

    # -- collect records and functions --------------------------------------
    def _collect(self, n, scope):
        k = n.get('kind')
        if k == 'NamespaceDecl':
            for c in inner(n):
                self._collect(c, scope + [n.get('name', '')])
        elif k == 'ClassTemplateDecl':
            for c in inner(n):
                if c.get('kind') == 'ClassTemplateSpecializationDecl':
                    self._collect(c, scope)
        elif k == 'ClassTemplateSpecializationDecl':
            args = [a['type']['qualType'] for a in inner(n) if a['kind'] == 'TemplateArgument' and 'type' in a]
            if not any(c.get('kind') == 'FieldDecl' or c.get('kind') == 'CXXMethodDecl' for c in inner(n)):
                return
            name = '%s<%s>' % (n['name'], ', '.join(norm_type_str(a) for a in args))
            self._record(n, scope, name)
        elif k == 'CXXRecordDecl' and n.get('completeDefinition') and not n.get('isImplicit'):
            if self._in_template(n):
                return
            self._record(n, scope, n.get('name', ''))
        elif k in ('FunctionDecl',) and self._has_body(n):
            if self._in_template(n):
                return
            self._func(n, scope, None)
        elif k == 'FunctionTemplateDecl':
            for c in inner(n):
                if c.get('kind') in ('FunctionDecl',) and self._has_body(c) and self._is_spec(c):
                    self._func(c, scope, None)

    def _in_template(self, n):
        p = self.parent.get(n.get('id'))
        while p is not None:
            if p.get('kind') in ('ClassTemplateDecl', 'FunctionTemplateDecl',
                                 'ClassTemplatePartialSpecializationDecl'):
                # a ClassTemplateSpecializationDecl nested in the ClassTemplateDecl is fine
                return True
            if p.get('kind') == 'ClassTemplateSpecializationDecl':
                return False
            p = self.parent.get(p.get('id'))
        return False

    @staticmethod
    def _has_body(n):
        return any(c.get('kind') in ('CompoundStmt', 'CXXTryStmt') for c in n.get('inner', []))

    @staticmethod
    def _is_spec(n):
        # an instantiated function template specialisation has TemplateArgument children
        return any(c.get('kind') == 'TemplateArgument' for c in n.get('inner', []))

    def _record(self, n, scope, name):
        qual = '::'.join([s for s in scope if s] + [name])
        norm = norm_type_str(qual)
        if norm in ('NoLabel', 'hashEdge'):
            return
        rec = self.records.get(norm)
        if rec is None:
            rec = {'norm': norm, 'node': n, 'fields': [], 'bases': [], 'methods': [], 'scope': scope, 'name': name}
            self.records[norm] = rec
        elif len(inner(n)) <= len(inner(rec['node'])):
            return
        else:
            rec.update({'node': n, 'fields': [], 'bases': [], 'methods': []})
        for b in n.get('bases', []):
            rec['bases'].append(norm_type_str(b['type'].get('desugaredQualType', b['type']['qualType'])))
        for c in inner(n):
            ck = c.get('kind')
            if ck == 'FieldDecl':
                rec['fields'].append(c)
            elif ck in ('CXXMethodDecl', 'CXXConstructorDecl'):
                if c.get('isImplicit'):
                    continue
                if self._has_body(c):
                    self._func(c, scope + [name], rec)
            elif ck == 'FunctionTemplateDecl':
                for d in inner(c):
                    if d.get('kind') in ('CXXMethodDecl', 'CXXConstructorDecl') and self._has_body(d) and self._is_spec(d):
                        self._func(d, scope + [name], rec)
            elif ck in ('CXXRecordDecl',) and c.get('completeDefinition') and not c.get('isImplicit'):
                self._record(c, scope + [name], c.get('name', ''))
            elif ck in ('TypeAliasDecl', 'TypedefDecl'):
                t = c['type'].get('desugaredQualType') or c['type']['qualType']
                self.aliases[norm_type_str(norm + '::' + c['name'])] = norm_type_str(t)

    def _func(self, n, scope, rec):
        if n['id'] in self.funcs:
            return
        fi = {'node': n, 'scope': scope, 'rec': rec, 'name': n.get('name', ''),
              'mangled': n.get('mangledName', ''), 'kind': n['kind']}
        self.funcs[n['id']] = fi
        if rec is not None:
            rec['methods'].append(fi)

    # -- C names ----------------------------------------------------------------
    def record_cname(self, norm):
        """C struct tag for a BaseGraph record given its normalised C++ name."""
        parts = split_scope(norm)
        out = []
        for p in parts:
            m = re.match(r'^(\w+)(<(.*)>)?$', p)
            if not m:
                raise ExtractError('record name %r' % norm)
            base = RECORD_SHORT.get(m.group(1))
            if base is None:
                raise ExtractError('no short name for record %r (%r)' % (m.group(1), norm))
            if m.group(3) is not None:
                lab = LABELS.get(norm_type_str(m.group(3)))
                if lab is None:
                    raise ExtractError('no label tag for %r' % m.group(3))
                base += '_' + lab
            out.append(base)
        return '_'.join(out)

    def _name_functions(self):
        groups = {}
        for fi in self.funcs.values():
            n = fi['node']
            name = fi['name']
            if fi['kind'] == 'CXXConstructorDecl':
                base = 'ctor'
            elif name == 'operator++' or name == 'operator--':
                nparams = len([c for c in inner(n) if c['kind'] == 'ParmVarDecl'])
                base = ('post' if nparams else 'pre') + ('inc' if name == 'operator++' else 'dec')
            elif name in OPNAMES:
                base = OPNAMES[name]
            elif name.startswith('operator'):
                base = 'op_' + re.sub(r'\W', '_', name[8:])
            else:
                base = name
            try:
                if fi['rec'] is not None:
                    owner = self.record_cname(fi['rec']['norm'])
                else:
                    owner = None
            except ExtractError as e:
                fi['cname'] = None
                fi['name_error'] = str(e)
                continue
            fi['owner'] = owner
            fi['base'] = base
            groups.setdefault((owner, base), []).append(fi)
        for (owner, base), fis in groups.items():
            for fi in fis:
                params = [c for c in inner(fi['node']) if c['kind'] == 'ParmVarDecl']
                suffix = ''
                if fi['rec'] is None:
                    # free function template: suffix by first graph parameter type / template args
                    targs = []
                    for c in inner(fi['node']):
                        if c['kind'] == 'TemplateArgument':
                            if 'type' in c:
                                targs.append(norm_type_str(c['type']['qualType']))
                            else:
                                targs.append(None)
                    fi['targs'] = targs
                if len(fis) > 1:
                    if fi['base'] in ('preinc', 'postinc', 'predec', 'postdec'):
                        suffix = ''
                    else:
                        suffix = '_%d' % len(params)
                fi['suffix'] = suffix
            # second pass: still ambiguous -> add type tags
            seen = {}
            for fi in fis:
                key = fi['suffix']
                seen.setdefault(key, []).append(fi)
            for key, lst in seen.items():
                if len(lst) > 1:
                    for fi in lst:
                        fi['suffix'] = key + '_' + self._sig_tag(fi)
            for fi in fis:
                if base == 'ctor' and owner and owner.startswith('LDG_') and fi['suffix'] in ('_1', '_1_sz'):
                    ps = [c for c in inner(fi['node']) if c['kind'] == 'ParmVarDecl']
                    if len(ps) == 1 and 'size_t' in ps[0]['type']['qualType']:
                        fi['suffix'] = ''   # the (size_t) constructor keeps the name the contracts are keyed to
                nm = (owner + '__' if owner else '') + base + fi['suffix']
                fi['cname'] = nm
                if nm in self.func_by_cname and self.func_by_cname[nm] is not fi:
                    raise ExtractError('duplicate C name %s' % nm)
                self.func_by_cname[nm] = fi

    def _sig_tag(self, fi):
        tags = []
        if fi['rec'] is None and fi.get('targs'):
            for t in fi['targs']:
                if t is None:
                    continue
                try:
                    tags.append(self.record_cname(t) if t in self.records else type_tag(t))
                except ExtractError:
                    tags.append(re.sub(r'\W+', '_', t))
            # template-template argument: take it from the first parameter type, or from the result type
            # when no parameter mentions it (loaders)
            rt = fi['node']['type']['qualType'].split('(')[0].strip()
            rt = norm_type_str(parse_cv_ref(rt)[0])
            params0 = [c for c in inner(fi['node']) if c['kind'] == 'ParmVarDecl']
            ptypes = [norm_type_str(parse_cv_ref(p['type'].get('desugaredQualType', p['type']['qualType']))[0]) for p in params0]
            if rt in self.records and not any(t in self.records for t in ptypes):
                tags.append(self.record_cname(rt))
        params = [c for c in inner(fi['node']) if c['kind'] == 'ParmVarDecl']
        for p in params:
            t, _, _, _ = parse_cv_ref(p['type'].get('desugaredQualType', p['type']['qualType']))
            t = norm_type_str(t)
            try:
                tags.append(self.record_cname(t) if t in self.records else type_tag(t))
            except ExtractError:
                # the member typedef `Directed` of the undirected class: one tag for every label
                tags.append(re.sub(r'^LabeledUndirectedGraph_.*_Directed$', 'Directed', re.sub(r'\W+', '_', t)))
        return '_'.join(tags)


def split_scope(s):
    out, depth, cur = [], 0, ''
    i = 0
    while i < len(s):
        ch = s[i]
        if ch == '<':
            depth += 1
        elif ch == '>':
            depth -= 1
        if depth == 0 and s.startswith('::', i):
            out.append(cur)
            cur = ''
            i += 2
            continue
        cur += ch
        i += 1
    out.append(cur)
    return out


def type_tag(norm):
    if norm in SCALARS:
        return {'unsigned int': 'u', 'unsigned long': 'sz', 'bool': 'b', 'int': 'i', 'double': 'real',
                'long double': 'real', 'long long': 'll', 'unsigned long long': 'ull', 'long': 'l', 'void': 'v', 'char': 'c',
                'unsigned char': 'uc'}[norm]
    if norm in STL:
        return STL[norm][1]
    if norm in ('VLabel', 'NoLabel'):
        return norm
    raise ExtractError('no tag for type %r' % norm)


# ----------------------------------------------------------------------------
# Emitter
# ----------------------------------------------------------------------------
class Emitter:
    def __init__(self, prog, loopspecs=None, ghost=None, inline_set=()):
        self.p = prog
        self.inline_set = set(inline_set)
        self.loopspecs = loopspecs or {}
        self.ghost = ghost or {}
        self.used_loopspecs = set()

    # ---- types ---------------------------------------------------------------
    def ctype(self, tnode):
        """tnode: a clang JSON type dict -> CType"""
        s = tnode.get('desugaredQualType') or tnode['qualType']
        return self.ctype_str(s, tnode.get('qualType'))

    def ctype_str(self, s, orig=None):
        base, is_ref, is_const, ptr = parse_cv_ref(s)
        norm = norm_type_str(base)
        # typedef spelled references do not desugar in the JSON: retry on the alias table
        if norm in SCALARS:
            return CType(norm, SCALARS[norm], is_ref, is_const, ptr)
        if norm in STL:
            return CType(norm, STL[norm][0], is_ref, is_const, ptr, {'stl': STL[norm][1]})
        if norm in ('VLabel', 'NoLabel'):
            return CType(norm, norm, is_ref, is_const, ptr, {'label': True})
        rec = self.find_record(norm)
        if rec is not None:
            return CType(rec['norm'], 'struct ' + self.p.record_cname(rec['norm']), is_ref, is_const, ptr,
                         {'record': rec})
        if norm in self.p.aliases:
            ct = self.ctype_str(self.p.aliases[norm], orig or s)
            ct.is_ref, ct.ptr = is_ref, ptr
            ct.is_const = ct.is_const or is_const
            return ct
        raise ExtractError('no rule for type %r (from %r)' % (norm, orig or s))

    def find_record(self, norm):
        if norm in self.p.records:
            return self.p.records[norm]
        # class-scope aliases (Directed, BaseClass) and injected class names are desugared by clang
        # in most places; spelled forms without namespace are already normalised.
        return None

    # ---- records -------------------------------------------------------------
    def emit_record(self, rec):
        cname = self.p.record_cname(rec['norm'])
        lines = ['struct %s {' % cname]
        for b in rec['bases']:
            brec = self.find_record(b)
            if brec is None:
                raise ExtractError('base %r of %r not found' % (b, rec['norm']))
            lines.append('  struct %s base;' % self.p.record_cname(brec['norm']))
        for f in rec['fields']:
            ct = self.ctype(f['type'])
            lines.append('  %s;' % ct.decl(f['name']))
        if len(lines) == 1:
            lines.append('  char bg_empty;')
        lines.append('};')
        return '\n'.join(lines)

    def record_deps(self, rec):
        deps = []
        for b in rec['bases']:
            deps.append(b)
        for f in rec['fields']:
            ct = self.ctype(f['type'])
            if 'record' in ct.info and not ct.is_ref and not ct.ptr:
                deps.append(ct.info['record']['norm'])
        return deps

    # ---- functions -----------------------------------------------------------
    def signature(self, fi):
        n = fi['node']
        tstr = n['type']['qualType']
        is_const = bool(re.search(r'\)\s*const(\s+noexcept)?$', tstr))
        is_static = n.get('storageClass') == 'static'
        params = []
        if fi['rec'] is not None and not is_static:
            rc = 'struct ' + self.p.record_cname(fi['rec']['norm'])
            params.append(('const ' if is_const else '') + rc + ' *this')
            fi['this_decl'] = params[-1]
        for c in inner(n):
            if c['kind'] == 'ParmVarDecl':
                ct = self.ctype(c['type'])
                nm = c.get('name') or ('bg_unnamed_%d' % len(params))
                params.append(ct.decl(nm))
        if fi['kind'] == 'CXXConstructorDecl':
            ret = 'void'
            self.cur_ret = CType('void', 'void')
        else:
            rts = self._ret_type_str(tstr)
            rt = self.ctype_str(rts)
            self.cur_ret = rt
            ret = rt.decl()
        return '%s %s(%s)' % (ret, fi['cname'], ', '.join(params) if params else 'void')

    @staticmethod
    def _ret_type_str(tstr):
        depth = 0
        for i, ch in enumerate(tstr):
            if ch in '<[':
                depth += 1
            elif ch in '>]':
                depth -= 1
            elif ch == '(' and depth == 0:
                return tstr[:i].strip()
        raise ExtractError('cannot parse function type %r' % tstr)

    def emit_function(self, fi):
        self.fi = fi
        self.tmp = 0
        self.loop_ord = 0
        self.try_stack = []
        self.label_n = 0
        self.ref_vars = {}
        self.callees = set()
        self.shim_calls = set()
        self.cont_stack = []
        self.cont_used = set()
        self.loop_depth = 0
        self.outlined = []
        self.rename = {}
        self.last_loop_ord = 0
        sig = self.signature(fi)
        n = fi['node']
        body_lines = []
        # parameters that are references
        for c in inner(n):
            if c['kind'] == 'ParmVarDecl':
                ct = self.ctype(c['type'])
                if ct.is_ref:
                    self.ref_vars[c['id']] = True
        out = Buf()
        for g in self.ghost.get((fi['cname'], 'entry'), []):
            out.add(g)
        if fi['kind'] == 'CXXConstructorDecl':
            self.emit_ctor_inits(fi, out)
        body = [c for c in inner(n) if c['kind'] in ('CompoundStmt', 'CXXTryStmt')][0]
        self.stmt(body, out)
        self.ghost_exit(out)
        return sig, out.text(1)

    def emit_ctor_inits(self, fi, out):
        n = fi['node']
        rec = fi['rec']
        inits = [c for c in inner(n) if c['kind'] == 'CXXCtorInitializer']
        done = set()
        for ci in inits:
            e = inner(ci)[0] if inner(ci) else None
            if 'delegatingInit' in ci or 'baseInit' in ci:
                # CXXConstructExpr of base / same class
                target = 'this' if 'delegatingInit' in ci else '&this->base'
                self.construct_into(e, target, out)
                done.add('base')
            elif 'anyInit' in ci:
                fld = ci['anyInit']
                ct = self.ctype(fld['type'])
                lhs = 'this->%s' % fld['name']
                self.cur_init_field = fld
                self.init_object(ct, lhs, e, out)
                done.add(fld['name'])
            else:
                raise ExtractError('ctor initializer %r' % {k: v for k, v in ci.items() if k != 'inner'})
        # implicit initialisers are listed by clang as well; check nothing is missed
        if 'base' not in done and rec['bases'] and not any('delegatingInit' in c for c in inits):
            raise ExtractError('base class not initialised in %s' % fi['cname'])
        if not any('delegatingInit' in c for c in inits):
            for f in rec['fields']:
                if f['name'] not in done:
                    raise ExtractError('field %s not initialised in %s' % (f['name'], fi['cname']))

    # ---- object initialisation ---------------------------------------------------
    def init_object(self, ct, lhs, e, out):
        """initialise C object `lhs` of type ct from init expression e (may be None)."""
        if ct.is_ref:
            out.add('%s = %s;' % (lhs, self.addr(e, out)))
            return
        if e is None:
            if 'stl' in ct.info:
                out.add('bg_%s__ctor(&%s);' % (ct.info['stl'], lhs))
            elif 'record' in ct.info:
                raise ExtractError('default init of record without ctor expr')
            return
        e = self.strip(e)
        k = e['kind']
        if k == 'CXXDefaultInitExpr':
            sub = inner(e)
            if sub:
                return self.init_object(ct, lhs, sub[0], out)
            # no sub expression in JSON: use the field's in-class initialiser
            fld = self.cur_init_field
            fsub = inner(self.p.by_id.get(fld['id'], {})) if fld else []
            if not fsub:
                raise ExtractError('CXXDefaultInitExpr without expression')
            return self.init_object(ct, lhs, fsub[0], out)
        if k in ('CXXConstructExpr', 'CXXTemporaryObjectExpr'):
            return self.construct_into(e, '&' + lhs, out)
        out.add('%s = %s;' % (lhs, self.rv(e, out)))

    def construct_into(self, e, target, out):
        """e: CXXConstructExpr; target: C pointer expr to storage."""
        e = self.strip(e)
        if e['kind'] not in ('CXXConstructExpr', 'CXXTemporaryObjectExpr'):
            out.add('*(%s) = %s;' % (target, self.rv(e, out)))
            return
        ct = self.ctype(e['type'])
        args = inner(e)
        ctor_t = e.get('ctorType', {}).get('qualType', '')
        # copy / move construction
        if len(args) == 1 and self._is_copy_ctor(ct, ctor_t):
            src = self.strip(args[0])
            if 'stl' in ct.info and ct.info['stl'] in COPY_FUNCS:
                out.add('*(%s) = bg_%s__copy(%s);' % (target, ct.info['stl'], self.addr(src, out)))
            else:
                out.add('*(%s) = %s;' % (target, self.rv_or_lv(src, out)))
            return
        if 'record' in ct.info:
            callee = self.find_ctor(ct.info['record'], ctor_t, len(args))
            self.callees.add(callee['cname'])
            cargs = self.call_args(args, out, callee)
            contracted = callee['cname'] not in self.inline_set
            if contracted:
                cargs = self.hoist_shim_args(cargs, out)
                out.add('bg_ghost_reset_all();')
            out.add('%s(%s);' % (callee['cname'], ', '.join([target] + cargs)))
            if contracted:
                out.add('bg_ghost_invalidate();')
            self.exc_check(out)
            return
        if 'stl' in ct.info:
            tag = ct.info['stl']
            if tag == 'queue_u' and len(args) == 1:
                # std::queue<VertexIndex> q({a, b, ...}): the queue is built from a deque holding the listed elements
                elems = self._init_list_elems(args[0])
                if elems is None:
                    raise ExtractError('queue constructed from something other than a braced list')
                out.add('bg_queue_u__ctor(%s);' % target)
                for el in elems:
                    t = self.newtmp()
                    out.add('VertexIndex %s = %s;' % (t, self.rv(el, out)))
                    out.add('bg_queue_u__push(%s, &%s);' % (target, t))
                return
            if tag == 'edge' and len(args) == 2:
                out.add('*(%s) = (bg_edge){%s, %s};' % (target, self.rv_or_lv(args[0], out), self.rv_or_lv(args[1], out)))
                return
            cargs = self.call_args(args, out, None, True)
            suffix = '' if not cargs else '_%d' % len(cargs)
            if not cargs and self._is_iter_tag(tag) and e['kind'] == 'CXXTemporaryObjectExpr':
                suffix = '_value'   # T() : value-initialised iterator
            out.add('bg_%s__ctor%s(%s);' % (tag, suffix, ', '.join([target] + cargs)))
            return
        if 'label' in ct.info:
            if not args:
                out.add('*(%s) = (%s){0};' % (target, ct.cname))
                return
        if ct.cname in SCALARS.values() and not args:
            out.add('*(%s) = 0;' % target)
            return
        raise ExtractError('no rule to construct %r with ctor %r' % (ct.base, ctor_t))

    def _init_list_elems(self, e):
        """elements of the braced list a container temporary is built from (through implicit conversions)"""
        e = self.strip(e)
        for _ in range(8):
            k = e.get('kind')
            if k == 'InitListExpr':
                return inner(e)
            if k == 'CXXStdInitializerListExpr':
                sub = self.strip(inner(e)[0])
                if sub.get('kind') == 'InitListExpr':
                    return inner(sub)
                e = sub
                continue
            ins = [c for c in inner(e) if c.get('kind') != 'CXXDefaultArgExpr']
            if len(ins) != 1:
                return None
            e = self.strip(ins[0])
        return None

    @staticmethod
    def _is_copy_ctor(ct, ctor_t):
        m = re.match(r'^void \((.*)\)( noexcept)?$', ctor_t)
        if not m:
            return False
        ps = split_top(m.group(1))
        if len(ps) != 1:
            return False
        b, is_ref, _, _ = parse_cv_ref(ps[0])
        if not is_ref:
            return False
        nb = norm_type_str(b)
        return nb == ct.base or nb.split('::')[-1] == ct.base.split('::')[-1].split('<')[0] or \
            norm_type_str(b) in (ct.base,) or nb.endswith('_Self') or nb in ('std::list', 'std::vector',
                                                                             'std::pair', 'std::set')

    def find_ctor(self, rec, ctor_t, nargs):
        cands = [m for m in rec['methods'] if m['kind'] == 'CXXConstructorDecl']
        want = self._sig_norm(ctor_t)
        for m in cands:
            if self._sig_norm(m['node']['type']['qualType']) == want:
                return m
        raise ExtractError('constructor %r of %s not instantiated (have %r)' % (
            ctor_t, rec['norm'], [m['node']['type']['qualType'] for m in cands]))

    @staticmethod
    def _sig_norm(t):
        m = re.match(r'^void \((.*)\)', t)
        ps = split_top(m.group(1)) if m and m.group(1).strip() else []
        out = []
        for p in ps:
            b, r, c, ptr = parse_cv_ref(p)
            out.append((norm_type_str(b), r, ptr))
        return tuple(out)

    # ---- statements ----------------------------------------------------------
    def stmt(self, n, out):
        k = n['kind']
        m = getattr(self, 'st_' + k, None)
        if m is None:
            if 'valueCategory' in n or k in ('ExprWithCleanups',):
                return self.st_expr(n, out)
            raise ExtractError('no rule for statement kind %s' % k)
        return m(n, out)

    def st_CompoundStmt(self, n, out):
        out.add('{')
        out.ind += 1
        for c in inner(n):
            self.stmt(c, out)
        out.ind -= 1
        out.add('}')

    def st_NullStmt(self, n, out):
        out.add(';')

    def st_expr(self, n, out):
        e = self.strip(n)
        s = self.rv_or_lv(e, out, discard=True)
        if e['kind'] in ('CompoundAssignOperator',) or (e['kind'] == 'BinaryOperator' and e['opcode'] == '=') or \
                (e['kind'] == 'UnaryOperator' and e['opcode'] in ('++', '--') and not e.get('isPostfix')
                 and e.get('valueCategory') == 'lvalue') or self._is_assign_call(e):
            return
        if s:
            out.add(s + ';')

    def _is_assign_call(self, e):
        if e['kind'] != 'CXXOperatorCallExpr':
            return False
        callee = self._strip_casts(inner(e)[0])
        return callee.get('referencedDecl', {}).get('name') == 'operator=' and \
            self.p.funcs.get(callee['referencedDecl']['id']) is None

    @staticmethod
    def _is_stmt_expr(s):
        return True

    def st_DeclStmt(self, n, out):
        for d in inner(n):
            if d['kind'] != 'VarDecl':
                if d['kind'] in ('CXXRecordDecl', 'TypedefDecl', 'TypeAliasDecl', 'StaticAssertDecl'):
                    continue
                raise ExtractError('no rule for declaration kind %s' % d['kind'])
            self.vardecl(d, out)

    def vardecl(self, d, out):
        ct = self.ctype(d['type'])
        name = self.rename.get(d['id'], d['name'])
        if d.get('storageClass') == 'static':
            raise ExtractError('static local %s' % name)
        init = inner(d)
        e = init[0] if init else None
        if ct.is_ref:
            self.ref_vars[d['id']] = True
            if e is None:
                raise ExtractError('reference without initialiser')
            out.add('%s = %s;' % (ct.decl(name), self.addr(e, out)))
            return
        if e is None:
            if 'stl' in ct.info:
                out.add('%s;' % ct.value_decl(name))
                out.add('bg_%s__ctor(&%s);' % (ct.info['stl'], name))
            else:
                out.add('%s;' % ct.value_decl(name))
            return
        es = self.strip(e)
        if es['kind'] in ('CXXConstructExpr', 'CXXTemporaryObjectExpr') and not self._elidable(es):
            out.add('%s;' % ct.value_decl(name))
            self.construct_into(es, '&' + name, out)
            return
        if es['kind'] in ('CXXConstructExpr',) and self._elidable(es):
            es = self.strip(inner(es)[0])
            if es['kind'] in ('CXXConstructExpr', 'CXXTemporaryObjectExpr') and not self._elidable(es):
                out.add('%s;' % ct.value_decl(name))
                self.construct_into(es, '&' + name, out)
                return
        if es['kind'] == 'InitListExpr' and ct.cname in ('bg_edge',):
            a = inner(es)
            out.add('%s = {%s, %s};' % (ct.value_decl(name), self.rv(a[0], out), self.rv(a[1], out)))
            return
        v = self.rv_or_lv(es, out)
        if 'stl' in ct.info and ct.info['stl'] in COPY_FUNCS and es.get('valueCategory') == 'lvalue':
            v = 'bg_%s__copy(&%s)' % (ct.info['stl'], v)
        out.add('%s = %s;' % (ct.value_decl(name), v))

    def _elidable(self, e):
        """copy/move construct from a single expression of the same type"""
        if e['kind'] != 'CXXConstructExpr':
            return False
        args = inner(e)
        if len(args) != 1:
            return False
        ct = self.ctype(e['type'])
        return self._is_copy_ctor(ct, e.get('ctorType', {}).get('qualType', ''))

    def st_ReturnStmt(self, n, out):
        sub = inner(n)
        if not sub:
            self.ghost_exit(out)
            out.add('return;')
            return
        e = self.strip(sub[0])
        rt = self.cur_ret
        if rt.is_ref:
            v = self.addr(e, out)
        else:
            v = self.value_of(e, out, rt)
        self.ghost_exit(out)
        out.add('return %s;' % v)

    def ghost_exit(self, out):
        for g in self.ghost.get((self.fi['cname'], 'exit'), []):
            out.add(g)
        if self.fi['cname'] not in self.inline_set and '__loop' not in self.fi['cname'] and \
                not self.graph_const(self.fi['cname']):
            out.add('bg_ghost_reset_all();')

    def value_of(self, e, out, ct):
        """by-value result of expression e (handles copy-construct wrappers)."""
        e = self.strip(e)
        if e['kind'] in ('CXXConstructExpr', 'CXXTemporaryObjectExpr'):
            if self._elidable(e):
                return self.value_of(inner(e)[0], out, ct)
            t = self.newtmp()
            ect = self.ctype(e['type'])
            out.add('%s;' % ect.value_decl(t))
            self.construct_into(e, '&' + t, out)
            return t
        if e['kind'] == 'InitListExpr':
            return self.initlist(e, out, ct)
        v = self.rv_or_lv(e, out)
        return v

    def initlist(self, e, out, ct=None):
        ect = self.ctype(e['type'])
        a = inner(e)
        if ect.cname == 'bg_edge' and len(a) == 2:
            return '(bg_edge){%s, %s}' % (self.rv(a[0], out), self.rv(a[1], out))
        if 'stl' in ect.info:
            t = self.newtmp()
            out.add('%s;' % ect.value_decl(t))
            cargs = [self.value_of(x, out, None) for x in a]
            out.add('bg_%s__init%d(%s);' % (ect.info['stl'], len(a), ', '.join(['&' + t] + cargs)))
            return t
        raise ExtractError('no rule for InitListExpr of %r with %d elements' % (ect.base, len(a)))

    def st_IfStmt(self, n, out):
        parts = inner(n)
        if n.get('hasInit') or n.get('hasVar'):
            raise ExtractError('if with init/var')
        cond = self.rv(parts[0], out)
        out.add('if (%s)' % cond)
        self.block(parts[1], out)
        if len(parts) > 2:
            out.add('else')
            self.block(parts[2], out)

    def block(self, n, out):
        if n['kind'] == 'CompoundStmt':
            self.stmt(n, out)
        else:
            out.add('{')
            out.ind += 1
            self.stmt(n, out)
            out.ind -= 1
            out.add('}')

    def loop_contract(self, out):
        self.loop_ord += 1
        self.last_loop_ord = self.loop_ord
        key = (self.fi['cname'], self.loop_ord)
        spec = self.loopspecs.get(key)
        if spec:
            self.used_loopspecs.add(key)
            for cl in spec:
                kw = {'assigns': '__CPROVER_assigns', 'invariant': '__CPROVER_loop_invariant',
                      'decreases': '__CPROVER_decreases'}[cl.kind]
                guarded = cl.kind == 'invariant' and cl.tags and 'ALL' not in cl.tags
                if guarded:
                    out.add('#if defined(BG_PROP_ALL) || ' + ' || '.join('defined(BG_PROP_%s)' % t for t in cl.tags))
                out.add('%s(%s) /* %s %s */' % (kw, cl.expr, cl.src, ','.join(cl.tags)))
                if guarded:
                    out.add('#endif')
        return key

    def loop_body(self, key, body, out, pre=None):
        out.add('{')
        out.ind += 1
        for g in self.ghost.get((key[0], 'loop%d_head' % key[1]), []):
            out.add(g)
        if pre:
            pre(out)
        for g in self.ghost.get((key[0], 'loop%d_body' % key[1]), []):
            out.add(g)
        tail = self.ghost.get((key[0], 'loop%d_tail' % key[1]), [])
        self.push_cont(bool(tail))
        self.stmt(body, out) if body['kind'] != 'CompoundStmt' else [self.stmt(c, out) for c in inner(body)]
        self.pop_cont(out)
        for g in tail:
            out.add(g)
        out.ind -= 1
        out.add('}')

    def cond_with_prelude(self, cond):
        """returns (prelude Buf, cond string)"""
        b = Buf()
        c = self.rv(cond, b)
        return b, c

    # ---- loop outlining (DESIGN §3: one loop level per proof unit) -----------------
    def maybe_outline(self, n, out):
        """a loop nested in another loop is emitted as its own function f__loopK"""
        if self.loop_depth == 0:
            return False
        if self._contains(n, 'ReturnStmt'):
            raise ExtractError('return inside a nested loop (no outlining rule)')
        k = self.loop_ord + 1
        name = '%s__loop%d' % (self.fi['cname'], k)
        # free variables
        declared, used, uses_this = set(), [], [False]

        def walk(x):
            kd = x.get('kind')
            if kd in ('VarDecl', 'ParmVarDecl', 'BindingDecl') and 'id' in x:
                declared.add(x['id'])
            if kd == 'CXXThisExpr':
                uses_this[0] = True
            if kd == 'DeclRefExpr':
                rd = x['referencedDecl']
                if rd['kind'] in ('VarDecl', 'ParmVarDecl') and rd['id'] not in [u['id'] for u in used]:
                    used.append(rd)
            for c in x.get('inner', []):
                walk(c)
        walk(n)
        free = [rd for rd in used if rd['id'] not in declared and self._is_local(rd['id'])]
        params, args = [], []
        if uses_this[0] or True:
            if self.fi.get('this_decl'):
                params.append(self.fi['this_decl'])
                args.append('this')
        new_refs = {}
        for rd in free:
            ct = self.ctype(rd['type'])
            is_ref = self.ref_vars.get(rd['id'], ct.is_ref)
            nm = self.rename.get(rd['id'], rd['name'])
            base = CType(ct.base, ct.cname, True, ct.is_const, ct.ptr, ct.info)
            params.append(base.decl(nm))
            args.append(nm if is_ref else '&' + nm)
            new_refs[rd['id']] = True
        sig = 'void %s(%s)' % (name, ', '.join(params) if params else 'void')
        # emit the loop in a fresh context
        saved = (self.fi, self.tmp, self.loop_ord, self.try_stack, self.label_n, self.ref_vars, self.callees,
                 self.cont_stack, self.cont_used, self.cur_ret, self.loop_depth)
        parent_callees = self.callees
        self.fi = dict(self.fi, cname=name)
        self.tmp, self.loop_ord, self.try_stack, self.label_n = 0, 0, [], 0
        self.ref_vars = dict(self.ref_vars)
        self.ref_vars.update(new_refs)
        self.callees, self.cont_stack, self.cont_used = set(), [], set()
        self.cur_ret = CType('void', 'void')
        self.loop_depth = 0
        body = Buf()
        for g in self.ghost.get((name, 'entry'), []):
            body.add(g)
        self.stmt(n, body)
        self.ghost_exit(body)
        sub_callees = self.callees
        nloops = self.loop_ord
        (self.fi, self.tmp, self.loop_ord, self.try_stack, self.label_n, self.ref_vars, self.callees,
         self.cont_stack, self.cont_used, self.cur_ret, self.loop_depth) = saved
        self.loop_ord = k  # the outlined loop consumes one ordinal of the parent
        self.outlined.append({'cname': name, 'sig': sig, 'body': body.text(1), 'callees': sorted(sub_callees),
                              'loops': nloops, 'parent': self.fi['cname']})
        self.callees.add(name)
        # no cache reset around an outlined loop: the scratch cell is part of the state its
        # contract describes (an unobserved row keeps its identity across the call)
        out.add('%s(%s);' % (name, ', '.join(args)))
        self.exc_check(out)
        return True

    def st_WhileStmt(self, n, out):
        if self.maybe_outline(n, out):
            return
        self.loop_depth += 1
        try:
            self._st_WhileStmt(n, out)
        finally:
            self.loop_depth -= 1
        self.loop_exit_ghost(out)

    def st_DoStmt(self, n, out):
        if self.maybe_outline(n, out):
            return
        self.loop_depth += 1
        try:
            self._st_DoStmt(n, out)
        finally:
            self.loop_depth -= 1
        self.loop_exit_ghost(out)

    def st_ForStmt(self, n, out):
        if self.maybe_outline(n, out):
            return
        self.loop_depth += 1
        try:
            self._st_ForStmt(n, out)
        finally:
            self.loop_depth -= 1
        self.loop_exit_ghost(out)

    def st_CXXForRangeStmt(self, n, out):
        if self.maybe_outline(n, out):
            return
        self.loop_depth += 1
        try:
            self._st_CXXForRangeStmt(n, out)
        finally:
            self.loop_depth -= 1
        self.loop_exit_ghost(out)

    def loop_exit_ghost(self, out):
        if self.loop_depth == 0 or True:
            for g in self.ghost.get((self.fi['cname'], 'loop%d_exit' % self.last_loop_ord), []):
                out.add(g)

    def _st_WhileStmt(self, n, out):
        parts = inner(n)
        cond, body = parts[0], parts[1]
        pre, c = self.cond_with_prelude(cond)
        if not pre.lines:
            out.add('while (%s)' % c)
            key = self.loop_contract(out)
            self.loop_body(key, body, out)
        else:
            out.add('while (1)')
            key = self.loop_contract(out)

            def prelude(o):
                o.extend(pre)
                o.add('if (!(%s)) break;' % c)
            self.loop_body(key, body, out, prelude)

    def _has_ghost_tail(self):
        key = (self.fi['cname'], 'loop%d_tail' % (self.loop_ord + 1))
        return key in self.ghost

    def _contains(self, n, kind):
        if n.get('kind') == kind:
            return True
        return any(self._contains(c, kind) for c in inner(n))

    def _st_DoStmt(self, n, out):
        parts = inner(n)
        body, cond = parts[0], parts[1]
        pre, c = self.cond_with_prelude(cond)
        # do B while (c)  ==>  while (1) { B; prelude; if (!c) break; }   (loop contracts attach to while)
        out.add('while (1)')
        key = self.loop_contract(out)
        out.add('{')
        out.ind += 1
        for g in self.ghost.get((key[0], 'loop%d_head' % key[1]), []):
            out.add(g)
        self.push_cont(True)
        self.stmt(body, out)
        self.pop_cont(out)
        out.extend(pre)
        out.add('if (!(%s)) break;' % c)
        out.ind -= 1
        out.add('}')

    def _st_ForStmt(self, n, out):
        raw = n.get('inner', [])
        # clang: [init, condvar, cond, inc, body]; absent parts are {} placeholders
        parts = [c for c in raw]
        if len(parts) != 5:
            raise ExtractError('for statement with %d parts' % len(parts))
        init, condvar, cond, inc, body = parts
        if condvar.get('kind'):
            raise ExtractError('for with condition variable')
        out.add('{')
        out.ind += 1
        if init.get('kind'):
            self.stmt(init, out)
        incb = Buf()
        if inc.get('kind'):
            self.st_expr(inc, incb)
        if cond.get('kind'):
            pre, c = self.cond_with_prelude(cond)
        else:
            pre, c = Buf(), '1'
        has_continue = self._contains(body, 'ContinueStmt')
        simple_inc = len(incb.lines) == 1
        if not pre.lines and simple_inc:
            out.add('for (; %s; %s)' % (c, incb.lines[0][1].rstrip(';')))
            key = self.loop_contract(out)
            self.loop_body(key, body, out)
        else:
            out.add('while (1)')
            key = self.loop_contract(out)

            def prelude(o):
                o.extend(pre)
                o.add('if (!(%s)) break;' % c)
            out.add('{')
            out.ind += 1
            for g in self.ghost.get((key[0], 'loop%d_head' % key[1]), []):
                out.add(g)
            prelude(out)
            for g in self.ghost.get((key[0], 'loop%d_body' % key[1]), []):
                out.add(g)
            self.push_cont(True)
            self.stmt(body, out)
            self.pop_cont(out)
            for g in self.ghost.get((key[0], 'loop%d_tail' % key[1]), []):
                out.add(g)
            out.extend(incb)
            out.ind -= 1
            out.add('}')
        out.ind -= 1
        out.add('}')

    def _st_CXXForRangeStmt(self, n, out):
        raw = n.get('inner', [])
        # [init?, range decl, begin decl, end decl, cond, inc, loopvar decl, body]
        if len(raw) != 8:
            raise ExtractError('range-for with %d parts' % len(raw))
        init, rng, beg, end, cond, inc, var, body = raw
        if init.get('kind'):
            raise ExtractError('range-for with init statement')
        # clang's names for the hidden variables (__range2, __begin0, ...) depend on its scope depth:
        # give them canonical names keyed by the loop ordinal so that loop contracts can mention them
        k = self.loop_ord + 1
        for stmt_, nm in ((rng, 'it_range%d'), (beg, 'it_begin%d'), (end, 'it_end%d')):
            for d in inner(stmt_):
                if d.get('kind') == 'VarDecl':
                    self.rename[d['id']] = nm % k
        out.add('{')
        out.ind += 1
        self.stmt(rng, out)
        self.stmt(beg, out)
        self.stmt(end, out)
        pre, c = self.cond_with_prelude(cond)
        incb = Buf()
        self.st_expr(inc, incb)
        if pre.lines or len(incb.lines) != 1:
            out.add('while (1)')
            key = self.loop_contract(out)
            out.add('{')
            out.ind += 1
            for g in self.ghost.get((key[0], 'loop%d_head' % key[1]), []):
                out.add(g)
            out.extend(pre)
            out.add('if (!(%s)) break;' % c)
            self.stmt(var, out)
            for g in self.ghost.get((key[0], 'loop%d_body' % key[1]), []):
                out.add(g)
            self.push_cont(True)
            self.stmt(body, out)
            self.pop_cont(out)
            for g in self.ghost.get((key[0], 'loop%d_tail' % key[1]), []):
                out.add(g)
            out.extend(incb)
            out.ind -= 1
            out.add('}')
        else:
            out.add('for (; %s; %s)' % (c, incb.lines[0][1].rstrip(';')))
            key = self.loop_contract(out)
            self.loop_body(key, body, out, lambda o: self.stmt(var, o))
        out.ind -= 1
        out.add('}')

    def st_BreakStmt(self, n, out):
        out.add('break;')

    def st_ContinueStmt(self, n, out):
        lab = self.cont_stack[-1] if self.cont_stack else None
        if lab is None:
            out.add('continue;')
        else:
            self.cont_used.add(lab)
            out.add('goto %s;' % lab)

    def push_cont(self, need_label):
        if need_label:
            self.label_n += 1
            lab = 'bg_cont_%d' % self.label_n
        else:
            lab = None
        self.cont_stack.append(lab)
        return lab

    def pop_cont(self, out):
        lab = self.cont_stack.pop()
        if lab is not None and lab in self.cont_used:
            out.add('%s: ;' % lab)

    def st_CXXTryStmt(self, n, out):
        parts = inner(n)
        body = parts[0]
        catches = parts[1:]
        self.label_n += 1
        lc = 'bg_catch_%d' % self.label_n
        le = 'bg_endtry_%d' % self.label_n
        self.try_stack.append(lc)
        self.stmt(body, out)
        self.try_stack.pop()
        out.add('goto %s;' % le)
        out.add('%s: ;' % lc)
        first = True
        for c in catches:
            cp = inner(c)
            if len(cp) != 2 or cp[0]['kind'] != 'VarDecl':
                raise ExtractError('catch shape')
            b, _, _, _ = parse_cv_ref(cp[0]['type']['qualType'])
            kind = EXC_KINDS.get(norm_type_str(b))
            if kind is None:
                raise ExtractError('no rule for catch of %r' % b)
            out.add('%sif (bg_exc == %s) {' % ('' if first else 'else ', kind))
            out.ind += 1
            out.add('bg_exc = BG_EXC_NONE;')
            self.stmt(cp[1], out)
            out.ind -= 1
            out.add('}')
            first = False
        out.add('else {')
        out.ind += 1
        self.unwind(out)
        out.ind -= 1
        out.add('}')
        out.add('%s: ;' % le)

    # ---- exceptions --------------------------------------------------------------
    def unwind(self, out):
        if self.try_stack:
            out.add('goto %s;' % self.try_stack[-1])
        else:
            self.ghost_exit(out)
            rt = self.cur_ret
            if rt.cname == 'void' and not rt.is_ref and not rt.ptr:
                out.add('return;')
            elif rt.is_ref or rt.ptr:
                out.add('return 0;')
            elif rt.cname in SCALARS.values():
                out.add('return 0;')
            else:
                out.add('BG_RETURN_UNSPECIFIED(%s);' % rt.cname)

    def exc_check(self, out):
        b = Buf()
        b.ind = 0
        self.unwind(b)
        if len(b.lines) == 1:
            out.add('if (bg_exc) %s' % b.lines[0][1])
        else:
            out.add('if (bg_exc) {')
            out.ind += 1
            out.extend(b)
            out.ind -= 1
            out.add('}')

    # ---- expressions ---------------------------------------------------------
    def strip(self, e):
        while e['kind'] in ('ExprWithCleanups', 'CXXBindTemporaryExpr', 'ParenExpr', 'ConstantExpr',
                            'SubstNonTypeTemplateParmExpr'):
            e = inner(e)[0]
        return e

    def newtmp(self):
        self.tmp += 1
        return 'bg_t%d' % self.tmp

    def rv_or_lv(self, e, out, discard=False):
        e = self.strip(e)
        if e.get('valueCategory') in ('lvalue', 'xvalue'):
            return self.lv(e, out)
        return self.rv(e, out, discard)

    def addr(self, e, out):
        """C pointer expression designating the object e refers to."""
        e = self.strip(e)
        if e.get('valueCategory') in ('lvalue', 'xvalue'):
            s = self.lv(e, out)
            return self._addr_of(s)
        # prvalue bound to a reference: materialise
        ct = self.ctype(e['type'])
        t = self.newtmp()
        v = self.value_of(e, out, ct)
        if v == t:
            return '&' + t
        out.add('%s = %s;' % (ct.value_decl(t), v))
        return '&' + t

    @staticmethod
    def _addr_of(s):
        m = re.match(r'^\(\*(.*)\)$', s)
        if m and balanced(m.group(1)):
            return m.group(1)
        return '&' + s

    def lv(self, e, out):
        e = self.strip(e)
        k = e['kind']
        m = getattr(self, 'lv_' + k, None)
        if m is None:
            m2 = getattr(self, 'ex_' + k, None)
            if m2 is None:
                raise ExtractError('no rule for lvalue expression kind %s' % k)
            return m2(e, out, True)
        return m(e, out)

    def rv(self, e, out, discard=False):
        e = self.strip(e)
        k = e['kind']
        if e.get('valueCategory') in ('lvalue', 'xvalue') and k not in ('ImplicitCastExpr',):
            # lvalue used where a value is expected without LValueToRValue (class types)
            return self.lv(e, out)
        m = getattr(self, 'rv_' + k, None)
        if m is None:
            m2 = getattr(self, 'ex_' + k, None)
            if m2 is None:
                raise ExtractError('no rule for expression kind %s' % k)
            return m2(e, out, False, discard) if k.endswith('CallExpr') else m2(e, out, False)
        return m(e, out)

    # literals
    def rv_IntegerLiteral(self, e, out):
        ct = self.ctype(e['type'])
        suffix = {'unsigned int': 'u', 'unsigned long': 'ul', 'long': 'l', 'long long': 'll'}.get(ct.base, '')
        return e['value'] + suffix

    def rv_UnaryExprOrTypeTraitExpr(self, e, out):
        # sizeof(T) / sizeof expr
        if e.get('name') != 'sizeof':
            raise ExtractError('type trait %s' % e.get('name'))
        if 'argType' in e:
            return '((bg_size)sizeof(%s))' % self.ctype(e['argType']).value_decl()
        return '((bg_size)sizeof(%s))' % self.rv_or_lv(inner(e)[0], out)

    def rv_CXXBoolLiteralExpr(self, e, out):
        return '1' if e['value'] else '0'

    def rv_FloatingLiteral(self, e, out):
        v = float(e['value'])
        if v != int(v):
            raise ExtractError('non-integral floating literal %r under A-REAL' % e['value'])
        return '%d' % int(v)

    def rv_CharacterLiteral(self, e, out):
        return str(e['value'])

    def rv_CXXNullPtrLiteralExpr(self, e, out):
        return '0'

    def lv_DeclRefExpr(self, e, out):
        rd = e['referencedDecl']
        if rd['kind'] in ('VarDecl', 'ParmVarDecl', 'BindingDecl'):
            name = self.rename.get(rd['id'], rd['name'])
            if name.startswith('G_') or name.startswith('bg_'):
                raise ExtractError('identifier %s collides with ghost namespace' % name)
            is_ref = self.ref_vars.get(rd['id'])
            if is_ref is None:
                t = rd['type']['qualType'].strip()
                is_ref = t.endswith('&')
                if not is_ref and not self._is_local(rd['id']):
                    return self.global_var(rd, e)
            return '(*%s)' % name if is_ref else name
        raise ExtractError('no rule for DeclRefExpr to %s %s' % (rd['kind'], rd.get('name')))

    def _is_local(self, did):
        n = self.p.by_id.get(did)
        p = self.p.parent.get(did)
        while p is not None:
            if p.get('id') == self.fi['node']['id']:
                return True
            p = self.p.parent.get(p.get('id'))
        return False

    def global_var(self, rd, e=None):
        name = rd['name']
        if name in GLOBAL_VARS:
            return GLOBAL_VARS[name]
        # a namespace-scope / static object: say whether this use can modify it (not const-qualified and not
        # immediately read through an lvalue-to-rvalue or to-const conversion); bin/check reports such a use from
        # an operation served under C18 as a failed frame obligation
        qt = rd['type']['qualType'].strip()
        par = self.p.parent.get(e['id']) if e is not None and 'id' in e else None
        reads = qt.startswith('const ') or (
            par is not None and par.get('kind') == 'ImplicitCastExpr' and (
                par.get('castKind') == 'LValueToRValue' or
                (par.get('castKind') == 'NoOp' and par.get('type', {}).get('qualType', '').startswith('const '))))
        if not reads:
            raise ExtractError('no rule for global variable %s: WRITES-SHARED-STATE object of type %s outside the '
                               'function is used as a modifiable lvalue' % (name, qt))
        raise ExtractError('no rule for global variable %s' % name)

    def rv_CXXThisExpr(self, e, out):
        return 'this'

    def lv_MemberExpr(self, e, out):
        base = inner(e)[0]
        bs = self.strip(base)
        fld = self.p.by_id.get(e.get('referencedMemberDecl'))
        name = e['name']
        if e.get('isArrow'):
            b = self.rv(bs, out)
            s = '%s->%s' % (b, name) if b == 'this' or re.match(r'^\w+$', b) else '(%s)->%s' % (b, name)
        else:
            b = self.rv_or_lv(bs, out)
            bt = self.ctype(bs['type'])
            if 'stl' in bt.info and bt.info['stl'] in ('edge',) or True:
                s = '%s.%s' % (b, name) if re.match(r'^[\w.>\-]+$', b) else '(%s).%s' % (b, name)
        # reference-typed field: deref
        if fld is not None and fld.get('kind') == 'FieldDecl':
            ft = fld['type']['qualType'].strip()
            if ft.endswith('&'):
                return '(*%s)' % s
        return s

    def rv_MemberExpr(self, e, out):
        return self.lv_MemberExpr(e, out)

    def ex_ImplicitCastExpr(self, e, out, want_lv):
        ck = e['castKind']
        sub = inner(e)[0]
        if ck == 'LValueToRValue':
            return self.lv(sub, out)
        if ck in ('NoOp', 'ConstructorConversion', 'UserDefinedConversion'):
            return self.rv_or_lv(sub, out)
        if ck in ('IntegralCast', 'IntegralToBoolean', 'IntegralToFloating', 'FloatingCast',
                  'FloatingToIntegral', 'BooleanToSignedIntegral', 'FloatingToBoolean'):
            ct = self.ctype(e['type'])
            return '((%s)%s)' % (ct.cname, self.rv(sub, out))
        if ck in ('UncheckedDerivedToBase', 'DerivedToBase'):
            path_len = len(e.get('path', [])) or 1
            sube = self.strip(sub)
            tgt = self.ctype(e['type'])
            if tgt.cname == 'bg_uset_it':
                # libstdc++'s hash iterators compare through their common base: one shim type for both
                return self.rv_or_lv(sube, out)
            if tgt.cname in ('bg_ifstream', 'bg_ofstream', 'bg_ios'):
                # file streams: basic_[io]stream is the shim type itself, basic_ios its member `base`
                src_t = self.ctype(sube['type'])
                if src_t.cname == tgt.cname:
                    path_len = 0
                elif tgt.cname == 'bg_ios':
                    path_len = 1
                else:
                    raise ExtractError('stream cast %s -> %s' % (src_t.cname, tgt.cname))
                if path_len == 0:
                    return self.rv_or_lv(sube, out) if not (tgt.ptr or sube['kind'] == 'CXXThisExpr') else self.rv(sube, out)
            if tgt.ptr or sube['kind'] == 'CXXThisExpr':
                b = self.rv(sube, out)
                if b.startswith('&'):
                    return '%s.%s' % (b, '.'.join(['base'] * path_len))
                return '&%s->%s' % (b, '.'.join(['base'] * path_len))
            b = self.rv_or_lv(sube, out)
            return '%s.%s' % (b, '.'.join(['base'] * path_len))
        if ck == 'FunctionToPointerDecay':
            return self.rv_or_lv(sub, out)
        if ck == 'ArrayToPointerDecay':
            return self.rv_or_lv(sub, out)
        if ck == 'NullToPointer':
            return '0'
        raise ExtractError('no rule for cast kind %s' % ck)

    lv_ImplicitCastExpr = lambda self, e, out: self.ex_ImplicitCastExpr(e, out, True)
    rv_ImplicitCastExpr = lambda self, e, out: self.ex_ImplicitCastExpr(e, out, False)

    def rv_CStyleCastExpr(self, e, out):
        ct = self.ctype(e['type'])
        return '((%s)%s)' % (ct.cname, self.rv(inner(e)[0], out))

    rv_CXXStaticCastExpr = rv_CStyleCastExpr

    def lv_CXXStaticCastExpr(self, e, out):
        # static_cast<const Base &>(*this)
        sub = inner(e)[0]
        return self.rv_or_lv(sub, out)

    def rv_CXXFunctionalCastExpr(self, e, out):
        sub = self.strip(inner(e)[0])
        ct = self.ctype(e['type'])
        if sub['kind'] in ('CXXConstructExpr',):
            return self.value_of(sub, out, ct)
        if ct.cname in SCALARS.values():
            return '((%s)%s)' % (ct.cname, self.rv(sub, out))
        return self.value_of(sub, out, ct)

    def rv_CXXConstructExpr(self, e, out):
        return self.value_of(e, out, self.ctype(e['type']))

    rv_CXXTemporaryObjectExpr = rv_CXXConstructExpr

    def rv_InitListExpr(self, e, out):
        return self.initlist(e, out)

    def rv_CXXScalarValueInitExpr(self, e, out):
        return '0'

    def rv_ImplicitValueInitExpr(self, e, out):
        return '0'

    def lv_MaterializeTemporaryExpr(self, e, out):
        sub = self.strip(inner(e)[0])
        ct = self.ctype(e['type'])
        v = self.value_of(sub, out, ct)
        if re.match(r'^bg_t\d+$', v):
            return v
        t = self.newtmp()
        out.add('%s = %s;' % (ct.value_decl(t), v))
        return t

    def rv_UnaryOperator(self, e, out):
        op = e['opcode']
        sub = inner(e)[0]
        if op in ('!', '-', '~', '+'):
            return '(%s%s)' % (op, self.rv(sub, out))
        if op == '&':
            return self._addr_of(self.lv(sub, out))
        if op in ('++', '--'):
            lv = self.lv(sub, out)
            return '(%s%s)' % (lv, op) if e.get('isPostfix') else '(%s%s)' % (op, lv)
        if op == '*':
            return '(*%s)' % self.rv(sub, out)
        raise ExtractError('no rule for unary operator %s' % op)

    def lv_UnaryOperator(self, e, out):
        op = e['opcode']
        sub = inner(e)[0]
        if op == '*':
            s = self.rv(sub, out)
            return '(*%s)' % s
        if op in ('++', '--') and not e.get('isPostfix'):
            lv = self.lv(sub, out)
            out.add('%s%s;' % (op, lv))
            return lv
        raise ExtractError('no rule for lvalue unary operator %s' % op)

    def rv_BinaryOperator(self, e, out):
        op = e['opcode']
        a, b = inner(e)
        if op in ('&&', '||'):
            sa = self.rv(a, out)
            bb = Buf()
            sb = self.rv(b, bb)
            if not bb.lines:
                return '(%s %s %s)' % (sa, op, sb)
            t = self.newtmp()
            out.add('bg_bool %s = %s;' % (t, sa))
            out.add('if (%s%s) {' % ('' if op == '&&' else '!', t))
            out.ind += 1
            out.extend(bb)
            out.add('%s = %s;' % (t, sb))
            out.ind -= 1
            out.add('}')
            return t
        if op == ',':
            raise ExtractError('comma operator')
        if op == '=':
            return self.lv_BinaryOperator(e, out)
        return '(%s %s %s)' % (self.rv(a, out), op, self.rv(b, out))

    def lv_BinaryOperator(self, e, out):
        op = e['opcode']
        a, b = inner(e)
        if op == '=':
            sb = self.rv(b, out)
            sa = self.lv(a, out)
            out.add('%s = %s;' % (sa, sb))
            return sa
        raise ExtractError('no rule for lvalue binary operator %s' % op)

    def lv_CompoundAssignOperator(self, e, out):
        op = e['opcode']
        a, b = inner(e)
        sb = self.rv(b, out)
        sa = self.lv(a, out)
        lt = self.ctype(a['type'])
        comp = e.get('computeLHSType', {}).get('desugaredQualType') or e.get('computeLHSType', {}).get('qualType')
        if comp:
            cct = self.ctype_str(comp)
            if cct.cname != lt.cname:
                # computation happens in another type (e.g. size_t += long long)
                out.add('%s = (%s)((%s)%s %s %s);' % (sa, lt.cname, cct.cname, sa, op[:-1], sb))
                return sa
        out.add('%s %s %s;' % (sa, op, sb))
        return sa

    rv_CompoundAssignOperator = lv_CompoundAssignOperator

    def ex_ConditionalOperator(self, e, out, want_lv):
        c, a, b = inner(e)
        sc = self.rv(c, out)
        ba, bb = Buf(), Buf()
        if want_lv:
            sa = self._addr_of(self.lv(a, ba))
            sb = self._addr_of(self.lv(b, bb))
        else:
            sa = self.rv_or_lv(a, ba)
            sb = self.rv_or_lv(b, bb)
        if not ba.lines and not bb.lines:
            s = '(%s ? %s : %s)' % (sc, sa, sb)
            return '(*%s)' % s if want_lv else s
        ct = self.ctype(e['type'])
        t = self.newtmp()
        out.add('%s%s;' % (ct.value_decl('*' + t if want_lv else t), ''))
        out.add('if (%s) {' % sc)
        out.ind += 1
        out.extend(ba)
        out.add('%s = %s;' % (t, sa))
        out.ind -= 1
        out.add('} else {')
        out.ind += 1
        out.extend(bb)
        out.add('%s = %s;' % (t, sb))
        out.ind -= 1
        out.add('}')
        return '(*%s)' % t if want_lv else t

    lv_ConditionalOperator = lambda self, e, out: self.ex_ConditionalOperator(e, out, True)
    rv_ConditionalOperator = lambda self, e, out: self.ex_ConditionalOperator(e, out, False)

    def rv_CXXThrowExpr(self, e, out):
        sub = inner(e)
        if not sub:
            raise ExtractError('rethrow')
        t = self.strip(sub[0])
        b, _, _, _ = parse_cv_ref(t['type'].get('desugaredQualType', t['type']['qualType']))
        kind = EXC_KINDS.get(norm_type_str(b))
        if kind is None:
            raise ExtractError('no rule for throw of %r' % b)
        # the message operand is dropped (DESIGN §3)
        out.add('bg_exc = %s;' % kind)
        self.unwind(out)
        return ''

    # ---- calls ---------------------------------------------------------------
    def call_args(self, args, out, decl=None, drop_default=False):
        res = []
        for i, a in enumerate(args):
            a0 = self.strip(a)
            if a0['kind'] == 'CXXDefaultArgExpr':
                sub = inner(a0)
                if not sub:
                    if drop_default:
                        continue
                    if decl is None:
                        raise ExtractError('default argument of a non-BaseGraph callee')
                    ps = [c for c in inner(decl['node']) if c['kind'] == 'ParmVarDecl']
                    sub = inner(ps[i]) if i < len(ps) else []
                    if not sub:
                        raise ExtractError('default argument %d of %s not in AST' % (i, decl['cname']))
                a0 = self.strip(sub[0])
            if a0.get('valueCategory') in ('lvalue', 'xvalue'):
                res.append(self.addr(a0, out))
            else:
                ct = self.ctype(a0['type'])
                res.append(self.value_of(a0, out, ct))
        return res

    GRAPH_RECORDS = ('LDG_', 'LUG_', 'DM', 'UM', 'DW', 'UW')

    @staticmethod
    def iter_protocol(cname):
        """edge-iterator functions: the cached row is part of the iterator state their contracts
        describe (EIT_OK), so no cache reset is emitted around calls to them"""
        return False

    def graph_const(self, cname):
        """the callee cannot mutate a graph: every pointer parameter of a graph record type is const"""
        fi = self.p.func_by_cname.get(cname)
        if fi is None:
            return False
        try:
            saved = getattr(self, 'cur_ret', None)
            sig = self.signature(dict(fi))
            self.cur_ret = saved
        except ExtractError:
            return False
        ps = sig[sig.index('(') + 1:sig.rindex(')')]
        for p in ps.split(','):
            p = p.strip()
            m = re.match(r'^(const )?struct (\w+) \*', p)
            if m and not m.group(1):
                rn = m.group(2)
                if re.match(r'^(LDG|LUG)_\w+$', rn) and not ('_Edges' in rn) or rn in ('DM', 'UM', 'DW', 'UW'):
                    return False
        return True

    def hoist_shim_args(self, cargs, out):
        res = []
        for a in cargs:
            if re.search(r'\bbg_\w+\(', a):
                t = self.newtmp()
                out.add('__typeof__(%s) %s = %s;' % (a, t, a))
                res.append(t)
            else:
                res.append(a)
        return res

    def finish_call(self, e, call, out, throws, is_bg, discard=False, cname=None, cargs=None):
        """hoist if needed; returns C expression for the call's value"""
        is_lv = e.get('valueCategory') in ('lvalue', 'xvalue')
        contracted = is_bg and cname is not None and cname not in self.inline_set
        if contracted:
            cargs = self.hoist_shim_args(cargs, out)
            call = '%s(%s)' % (cname, ', '.join(cargs))
            if not self.iter_protocol(cname):
                out.add('bg_ghost_reset_keep_frontier();' if self.graph_const(cname) else 'bg_ghost_reset_all();')
        if discard and not (throws or is_bg):
            return call
        if discard:
            ct = CType('void', 'void')
        else:
            ct = self.ctype(e['type'])
        if throws or is_bg:
            isvoid = ct.cname == 'void' and not ct.ptr
            if isvoid or discard:
                out.add('%s;' % call)
                res = ''
            else:
                t = self.newtmp()
                if is_lv:
                    out.add('%s%s *%s = %s;' % ('const ' if ct.is_const else '', ct.cname + ' ' + '*' * ct.ptr, t, call))
                    res = '(*%s)' % t
                else:
                    out.add('%s = %s;' % (ct.value_decl(t), call))
                    res = t
            if contracted and not self.iter_protocol(cname):
                out.add('bg_ghost_invalidate_keep_frontier();' if self.graph_const(cname) else 'bg_ghost_invalidate();')
            self.exc_check(out)
            return res
        return '(*%s)' % call if is_lv else call

    def ex_CXXMemberCallExpr(self, e, out, want_lv, discard=False):
        parts = inner(e)
        callee = self.strip(parts[0])
        args = parts[1:]
        if callee['kind'] != 'MemberExpr':
            raise ExtractError('member call through %s' % callee['kind'])
        obj = self.strip(inner(callee)[0])
        mname = callee['name']
        decl = self.p.funcs.get(callee.get('referencedMemberDecl'))
        if callee.get('isArrow'):
            objp = self.rv(obj, out)
            ot = self.ctype(obj['type'])
        else:
            objp = self.addr(obj, out)
            ot = self.ctype(obj['type'])
        if decl is not None:
            cargs = self.call_args(args, out, decl)
            # adjust object pointer to the declaring class (inherited methods)
            objp = self.adjust_this(objp, ot, decl)
            call = '%s(%s)' % (decl['cname'], ', '.join([objp] + cargs))
            self.callees.add(decl['cname'])
            return self.finish_call(e, call, out, True, True, discard, decl['cname'], [objp] + cargs)
        if 'stl' in ot.info:
            tag = ot.info['stl']
            fn = self.shim_method(tag, mname, callee, args, ot)
            cargs = self.call_args(args, out)
            if tag == 'list_u' and mname == 'erase' and len(args) == 1:
                a0 = self.strip(args[0])
                inner_a = self.strip(inner(a0)[0]) if a0['kind'] == 'CXXConstructExpr' and inner(a0) else a0
                inner_a = self._strip_casts(inner_a)
                if inner_a['kind'] == 'DeclRefExpr':
                    fn = 'bg_list_u__erase_named'
                    cargs = ['&' + self.lv(inner_a, out)]
            call = '%s(%s)' % (fn, ', '.join([objp] + cargs))
            return self.finish_call(e, call, out, mname in SHIM_THROWS, False, discard)
        if 'record' in ot.info:
            raise ExtractError('method %s of %s not found among instantiated functions' % (mname, ot.base))
        raise ExtractError('no rule for member call %s on %r' % (mname, ot.base))

    @staticmethod
    def _is_iter_tag(tag):
        return tag.startswith('it_') or tag.endswith('_it')

    def _strip_casts(self, e):
        e = self.strip(e)
        while e['kind'] == 'ImplicitCastExpr' and e['castKind'] in ('NoOp', 'LValueToRValue',
                                                                    'FunctionToPointerDecay'):
            e = self.strip(inner(e)[0])
        return e

    def shim_method(self, tag, mname, callee, args, ot):
        is_const = ot.is_const or 'const' in (callee.get('type', {}).get('qualType', ''))
        name = OPNAMES.get(mname, mname)
        fn = 'bg_%s__%s' % (tag, name)
        if name in ('index', 'at', 'front', 'back') and ot.is_const:
            fn += '_c'
        return fn

    def adjust_this(self, objp, ot, decl):
        """objp points to an object of (record) type ot; decl is declared in decl['rec']."""
        if 'record' not in ot.info:
            raise ExtractError('call of BaseGraph method on non-record %r' % ot.base)
        rec = ot.info['record']
        path = []
        while rec is not None and rec is not decl['rec']:
            if not rec['bases']:
                raise ExtractError('%s is not a base of %s' % (decl['rec']['norm'], ot.base))
            path.append('base')
            rec = self.find_record(rec['bases'][0])
        if not path:
            return objp
        if objp.startswith('&'):
            return objp + '.' + '.'.join(path)
        return '&(%s)->%s' % (objp, '.'.join(path))

    def ex_CXXOperatorCallExpr(self, e, out, want_lv, discard=False):
        parts = inner(e)
        callee = self._strip_casts(parts[0])
        args = parts[1:]
        if callee['kind'] != 'DeclRefExpr':
            raise ExtractError('operator call through %s' % callee['kind'])
        rd = callee['referencedDecl']
        opname = rd['name']
        decl = self.p.funcs.get(rd['id'])
        if rd['kind'] == 'CXXMethodDecl':
            obj = self.strip(args[0])
            rest = args[1:]
            ot = self.ctype(obj['type'])
            if decl is None and opname == 'operator=' and ot.info.get('stl') == 'bitref':
                # vector<bool>::reference::operator=(bool): a write THROUGH the proxy
                ref = self.addr(obj, out)
                out.add('bg_bitref__assign(%s, %s);' % (ref, self.rv(rest[0], out)))
                return '(*%s)' % ref if ref.startswith('&') is False else ref[1:]
            if decl is None and opname == 'operator=':
                # implicit / library copy or move assignment: object copy
                src = self.strip(rest[0])
                sv = self.value_of(src, out, ot)
                if 'stl' in ot.info and ot.info['stl'] in COPY_FUNCS and src.get('valueCategory') == 'lvalue':
                    sv = 'bg_%s__copy(&%s)' % (ot.info['stl'], sv)
                dst = self.lv(obj, out)
                out.add('%s = %s;' % (dst, sv))
                return dst
            if decl is not None:
                objp = self.addr(obj, out)
                cargs = self.call_args(rest, out, decl)
                objp = self.adjust_this(objp, ot, decl)
                call = '%s(%s)' % (decl['cname'], ', '.join([objp] + cargs))
                self.callees.add(decl['cname'])
                return self.finish_call(e, call, out, True, True, discard, decl['cname'], [objp] + cargs)
            if 'stl' in ot.info:
                tag = ot.info['stl']
                name = OPNAMES.get(opname)
                if opname in ('operator++', 'operator--'):
                    # postfix has a dummy int argument
                    post = len(rest) == 1
                    name = ('post' if post else 'pre') + ('inc' if opname == 'operator++' else 'dec')
                    rest = []
                if name is None:
                    raise ExtractError('no rule for %s on %r' % (opname, ot.base))
                fn = 'bg_%s__%s' % (tag, name)
                if name in ('index',) and (ot.is_const or obj.get('type', {}).get('qualType', '').startswith('const ')):
                    fn += '_c'
                if name in ('eq', 'ne', 'lt') and self._is_iter_tag(tag):
                    call = '%s(%s, %s)' % (fn, self.rv_or_lv(obj, out), self.rv_or_lv(rest[0], out))
                    return self.finish_call(e, call, out, False, False, discard)
                objp = self.addr(obj, out)
                cargs = self.call_args(rest, out)
                call = '%s(%s)' % (fn, ', '.join([objp] + cargs))
                return self.finish_call(e, call, out, False, False, discard)
            if 'label' in ot.info and opname == 'operator==':
                a = self.rv_or_lv(obj, out)
                b = self.rv_or_lv(rest[0], out)
                return 'bg_label_eq_%s(%s, %s)' % (ot.cname, a, b)
            raise ExtractError('no rule for operator %s on %r' % (opname, ot.base))
        # free operator function (e.g. operator== on list iterators, pairs)
        ot = self.ctype(self.strip(args[0])['type'])
        if 'stl' in ot.info:
            name = OPNAMES.get(opname)
            if name is None:
                raise ExtractError('no rule for free operator %s on %r' % (opname, ot.base))
            fn = 'bg_%s__%s' % (ot.info['stl'], name)
            if name in ('eq', 'ne', 'lt') and self._is_iter_tag(ot.info['stl']):
                cargs = [self.rv_or_lv(x, out) for x in args]
            else:
                cargs = self.call_args(args, out)
            return self.finish_call(e, '%s(%s)' % (fn, ', '.join(cargs)), out, False, False, discard)
        if ot.base == 'std::_Ios_Openmode' and opname == 'operator|':
            return '(%s | %s)' % (self.rv(args[0], out), self.rv(args[1], out))
        raise ExtractError('no rule for free operator %s on %r' % (opname, ot.base))

    def rv_CXXReinterpretCastExpr(self, e, out):
        # reinterpret_cast<[const] char *>(&value): the object representation, handed to a stream shim
        ct = self.ctype(e['type'])
        if not (ct.ptr == 1 and ct.cname == 'char'):
            raise ExtractError('reinterpret_cast to %s' % ct.decl())
        return '((%schar *)%s)' % ('const ' if ct.is_const else '', self.rv(inner(e)[0], out))

    def ex_CallExpr(self, e, out, want_lv, discard=False):
        parts = inner(e)
        callee = self._strip_casts(parts[0])
        args = parts[1:]
        if callee['kind'] != 'DeclRefExpr':
            raise ExtractError('call through %s' % callee['kind'])
        rd = callee['referencedDecl']
        name = rd['name']
        decl = self.p.funcs.get(rd['id'])
        if decl is not None:
            cargs = self.call_args(args, out, decl)
            call = '%s(%s)' % (decl['cname'], ', '.join(cargs))
            self.callees.add(decl['cname'])
            return self.finish_call(e, call, out, True, True, discard, decl['cname'], cargs)
        # std:: free functions
        if name == 'move' or name == 'forward':
            return self.lv(args[0], out)
        if name == 'get':
            # std::get<I>(tuple)
            ftype = callee['type']['qualType']
            idx = self._get_index(callee, e)
            base = self.lv(args[0], out)
            return '%s.f%d' % (base, idx)
        if name in ('max', 'min'):
            t = self.ctype(e['type'])
            cargs = self.call_args(args, out)
            return '(*bg_%s_%s(%s))' % (name, type_tag(t.base), ', '.join(cargs))
        if name == 'find':
            t0 = self.ctype(self.strip(args[0])['type'])
            cargs = self.call_args(args, out)
            if 'stl' in t0.info and t0.info['stl'] == 'it_u':
                return 'bg_find_u(%s)' % ', '.join(cargs)
        if name in FREE_SHIMS:
            cargs = self.call_args(args, out)
            fn, throws = FREE_SHIMS[name]
            return self.finish_call(e, '%s(%s)' % (fn, ', '.join(cargs)), out, throws, False, discard)
        raise ExtractError('no rule for call of %s <%s>' % (name, rd.get('type', {}).get('qualType')))

    def _get_index(self, callee, e):
        # the instantiated std::get<I>: recover I from the result type position in the tuple
        t = callee['type']['qualType']
        # result type of get<I> is tuple_element<I,...>::type; the JSON of the DeclRefExpr carries
        # template args only in the name of the referenced decl's type; use foundReferencedDecl if any
        m = re.search(r'__tuple_element_t<(\d+)', t) or re.search(r'tuple_element<(\d+)', t)
        if m:
            return int(m.group(1))
        raise ExtractError('cannot recover index of std::get from %r' % t)


COPY_FUNCS = {'list_u'}
GLOBAL_VARS = {
    'BASEGRAPH_VERTEX_MAX': 'BG_VERTEX_MAX',
    'BASEGRAPH_INFINITY': 'BG_INFINITY',
    'SYSTEM_IS_BIG_ENDIAN': 'bg_SYSTEM_IS_BIG_ENDIAN',
    'in': 'BG_IOS_IN', 'out': 'BG_IOS_OUT', 'binary': 'BG_IOS_BINARY',   # std::ios_base::openmode constants
}
FREE_SHIMS = {}


def ctor_tag(ctor_t):
    m = re.match(r'^void \((.*)\)', ctor_t)
    ps = split_top(m.group(1)) if m and m.group(1).strip() else []
    tags = []
    for p in ps:
        b, r, c, ptr = parse_cv_ref(p)
        nb = norm_type_str(b)
        # drop allocator parameters
        if 'allocator' in nb:
            continue
        try:
            tags.append(type_tag(nb))
        except ExtractError:
            tags.append(re.sub(r'\W+', '_', nb).strip('_'))
    return '_'.join(tags)


def balanced(s):
    d = 0
    for ch in s:
        if ch == '(':
            d += 1
        elif ch == ')':
            d -= 1
            if d < 0:
                return False
    return d == 0


class Buf:
    def __init__(self):
        self.lines = []
        self.ind = 0

    def add(self, s):
        self.lines.append((self.ind, s))

    def extend(self, other):
        for i, s in other.lines:
            self.lines.append((self.ind + i, s))

    def text(self, base=0):
        return '\n'.join('  ' * (base + i) + s for i, s in self.lines)
