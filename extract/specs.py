"""Loader for contracts/*.spec (DESIGN §3 step 4, §4.6, §4.7).

Contracts never live in /repo.  They are keyed by the emitted C name of the
function (and loop ordinal); the C prototype is taken from the extraction, so
a contract cannot drift from the real signature, and a key that matches no
emitted function/loop is an infrastructure error (exit 2), never a violation.

  @for L in VLabel NoLabel uint real     expands {L} in the following sections
  @contract <cname>                      function contract
    requires <expr>
    assigns  <targets>
    ensures [C01,C03 name] <expr>        tags: property ids served, optional clause name
    ensures [ALL] <expr>
  @loop <cname> <ordinal>                loop contract (ordinal = 1.. in emission order)
    assigns <targets>
    invariant [tags] <expr>
    decreases <expr>
  @ghost <cname> <where>                 where = loop<k>_head | loop<k>_tail | exit
    bg_ghost_...;
  @inline <cname> ...                    functions verified inside their callers (no contract)
  @end
A line ending in '\\' continues on the next line.  `@if L in A B` ... `@endif`
keeps lines only for those instantiations.
"""
import glob
import os
import re


class Clause:
    def __init__(self, kind, tags, name, expr, src):
        self.kind, self.tags, self.name, self.expr, self.src = kind, tags, name, expr, src

    def enabled(self, prop):
        """is the clause part of the projection of the contract onto property `prop`?"""
        return prop is None or 'ALL' in self.tags or prop in self.tags or not self.tags


class Specs:
    def __init__(self):
        self.contracts = {}   # cname -> [Clause]
        self.loops = {}       # (cname, k) -> [Clause]
        self.ghost = {}       # (cname, where) -> [str]
        self.inline = set()
        self.aliases = {}


def _logical_lines(path):
    buf, start = '', 0
    for ln, raw in enumerate(open(path), 1):
        line = raw.rstrip('\n')
        if not buf:
            start = ln
        if line.rstrip().endswith('\\'):
            buf += line.rstrip()[:-1] + ' '
            continue
        buf += line
        yield start, buf
        buf = ''
    if buf:
        yield start, buf


def load(cdir):
    sp = Specs()
    for path in sorted(glob.glob(os.path.join(cdir, '*.spec'))):
        sp.aliases = {}   # aliases are file-local
        var, insts = None, ['']
        cur = []          # list of (kind, key, inst)
        cond = None       # set of insts for which lines are kept
        for ln, line in _logical_lines(path):
            s = line.strip()
            if not s or s.startswith('//'):
                continue
            src = '%s:%d' % (os.path.basename(path), ln)
            if s.startswith('@alias '):
                toks = s.split()
                sp.aliases[toks[1]] = toks[2:]
                continue
            if s.startswith('@for '):
                m = re.match(r'@for (\w+) in (.*)$', s)
                var, insts = m.group(1), m.group(2).split()
                continue
            if s.startswith('@if '):
                m = re.match(r'@if (\w+) in (.*)$', s)
                cond = set(m.group(2).split())
                continue
            if s == '@endif':
                cond = None
                continue
            if s.startswith('@contract '):
                name = s.split()[1]
                cur = []
                for i in insts:
                    key = sub(name, var, i)
                    if key in sp.contracts:
                        raise SystemExit('%s: duplicate contract %s' % (src, key))
                    sp.contracts[key] = []
                    cur.append(('contract', key, i))
                continue
            if s.startswith('@loop '):
                _, name, k = s.split()
                cur = []
                for i in insts:
                    key = (sub(name, var, i), int(k))
                    sp.loops[key] = []
                    cur.append(('loop', key, i))
                continue
            if s.startswith('@ghost '):
                _, name, where = s.split()
                cur = []
                for i in insts:
                    key = (sub(name, var, i), where)
                    sp.ghost[key] = []
                    cur.append(('ghost', key, i))
                continue
            if s.startswith('@inline '):
                for name in s.split()[1:]:
                    for i in insts:
                        sp.inline.add(sub(name, var, i))
                continue
            if s == '@end':
                cur = []
                var, insts = None, ['']
                continue
            for kind, key, i in cur:
                if cond is not None and i not in cond:
                    continue
                text = sub(s, var, i)
                if kind == 'ghost':
                    check_ghost(text, src)
                    sp.ghost[key].append(text)
                    continue
                m = re.match(r'^(requires|assigns|ensures|invariant|decreases)\s*(\[([^\]]*)\])?\s*(.*)$', text)
                if not m:
                    raise SystemExit('%s: cannot parse clause %r' % (src, text))
                ckind, tagstr, expr = m.group(1), m.group(3) or '', m.group(4)
                toks = []
                for t in tagstr.replace(',', ' ').split():
                    toks.extend(sp.aliases.get(t, [t]))
                tags = [t for t in toks if re.match(r'^(C\d+|ALL)$', t)]
                names = [t for t in toks if not re.match(r'^(C\d+|ALL)$', t)]
                for t in names:
                    if re.match(r'^[A-Z][A-Z0-9_]*$', t):
                        # an undefined alias would silently make the clause part of EVERY projection
                        raise SystemExit('%s: tag %r is neither a property id nor an alias of this file' % (src, t))
                cl = Clause(ckind, tags, names[0] if names else '', expr, src)
                (sp.contracts if kind == 'contract' else sp.loops)[key].append(cl)
    return sp


def sub(s, var, val):
    return s.replace('{%s}' % var, val) if var else s


def check_ghost(text, src):
    if not re.match(r'^(bg_ghost_[\w.]+\s*(\(|=|\+=|-=|\+\+|--)|if\s*\(.*\)\s*bg_ghost_\w+)', text):
        raise SystemExit('%s: ghost statement may only touch bg_ghost_*: %r' % (src, text))
