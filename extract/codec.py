"""Textual extraction of the two byte-order leaf functions of fileio.hpp (DESIGN §3, C14).

swapBytes<T> and _isSystemBigEndian use unions over std::array / uint8_t[], which the AST extractor has no
rules for.  They are ten lines of straight-line code, so they are extracted from the SOURCE TEXT of /repo on
every run by rewrite rules each of which must fire exactly once; any other shape is an extraction error
(status `error`, units needing the function report exit 2 / native replay, never a pass).
What the rules drop: the template parameter (T := VertexIndex, the one instantiation the binary format uses
for vertex indices), `std::` qualifiers, reference -> pointer."""
import re


class CodecError(Exception):
    pass


def _body(text, header_re):
    m = re.search(header_re, text)
    if not m:
        raise CodecError('definition not found: %s' % header_re)
    i = text.index('{', m.end() - 1)
    depth, j = 0, i
    while True:
        depth += (text[j] == '{') - (text[j] == '}')
        j += 1
        if depth == 0:
            break
    return text[i + 1:j - 1], text[:m.start()].count('\n') + 1


def _rule(body, pat, repl, what):
    new, n = re.subn(pat, repl, body)
    if n != 1:
        raise CodecError('rule %r fired %d times' % (what, n))
    return new


def extract(fileio_path):
    """-> {cname: {'sig','body','line'} or {'error'}}"""
    text = open(fileio_path).read()
    out = {}
    try:
        b, line = _body(text, r'template\s*<typename T>\s*void\s+swapBytes\s*\(T\s*&val\)\s*\{')
        b = _rule(b, r'union\s+U\s*\{\s*T\s+val;\s*std::array<std::uint8_t,\s*sizeof\(T\)>\s+raw;\s*\}\s*src,\s*dst;',
                  'union U { VertexIndex val; unsigned char raw[sizeof(VertexIndex)]; } src, dst;', 'union U')
        b = _rule(b, r'src\.val\s*=\s*val;', 'src.val = *val;', 'src.val = val')
        b = _rule(b, r'std::reverse_copy\(src\.raw\.begin\(\),\s*src\.raw\.end\(\),\s*dst\.raw\.begin\(\)\);',
                  'bg_reverse_copy_u8(src.raw, src.raw + sizeof(VertexIndex), dst.raw);', 'reverse_copy')
        b = _rule(b, r'(?<![\w.])val\s*=\s*dst\.val;', '*val = dst.val;', 'val = dst.val')
        if re.search(r'\bT\b|std::', b):
            raise CodecError('untranslated token left in swapBytes')
        out['swapBytes'] = {'sig': 'void swapBytes(VertexIndex *val)', 'body': b.strip('\n'), 'line': line}
    except CodecError as e:
        out['swapBytes'] = {'error': str(e)}
    try:
        b, line = _body(text, r'\bbool\s+_isSystemBigEndian\s*\(\)\s*\{')
        b = _rule(b, r'\buint32_t\b', 'unsigned int', 'uint32_t')
        b = _rule(b, r'\buint8_t\b', 'unsigned char', 'uint8_t')
        if not re.search(r'union\s*\{[^}]*\}\s*integer\s*=\s*\{0x01020304\};', b) or 'std::' in b:
            raise CodecError('unexpected shape of _isSystemBigEndian')
        out['_isSystemBigEndian'] = {'sig': 'bg_bool _isSystemBigEndian(void)', 'body': b.strip('\n'), 'line': line}
    except CodecError as e:
        out['_isSystemBigEndian'] = {'error': str(e)}
    return out
