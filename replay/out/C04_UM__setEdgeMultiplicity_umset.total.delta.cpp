// native replay of UM__setEdgeMultiplicity:umset.total.delta
// build: g++ -std=c++14 -O1 -w -fno-access-control -DBG_L=uint -I /repo/include -I /verif/shim -I <gen: bin/extract --out DIR> -I /verif/contracts -I /verif/replay /verif/replay/out/C04_UM__setEdgeMultiplicity_umset.total.delta.cpp -o /verif/replay/out/C04_UM__setEdgeMultiplicity_umset.total.delta.bin
// result: FAILING INPUT FOUND (exit 1)
/* output of the replay on the real code:
CLAUSE FALSE ON THE REAL CODE: umset.total.delta multigraph.spec:235
  history: G g(1); g.addMultiedge(0,0,2,false);
  call: setEdgeMultiplicity(0, 0, 0)  observed at G_P=0 G_Q=0  exception code after call=0
13 calls replayed
*/
#include "native.hpp"
#include "view.h"
typedef BaseGraph::UndirectedMultigraph G;
typedef struct UM Abs;
typedef unsigned int L;
#undef OLD
#define OLD(x) ([&] { Abs *bg_sv = bg_self; bg_self = bg_old_self; auto bg_v = (x); bg_self = bg_sv; return bg_v; }())
#define __CPROVER_is_fresh(p, n) 1
static const char *bg_failed = 0;
int main() {
  const int maxN = 3;
  long calls = 0;
  int rc = 0;
  bg_install_handlers();
  enumerate_graphs<G, L>(maxN, 2, true, [&](const G &g0, const std::string &history) {
    if (rc) return;
    const int N = (int)g0.getSize();
    for (VertexIndex vertex1 = 0; vertex1 <= (VertexIndex)N + 1; ++vertex1)
    for (VertexIndex vertex2 = 0; vertex2 <= (VertexIndex)N + 1; ++vertex2)
    for (VertexIndex multiplicity = 0; multiplicity <= (VertexIndex)N + 1; ++multiplicity)
    for (VertexIndex p = 0; p <= (VertexIndex)N; ++p) for (VertexIndex q = 0; q <= (VertexIndex)N; ++q) {
      if (rc) continue;
      G_P = p; G_Q = q; bg_exc = 0;
      bg_scratch_row.valid = 0; bg_scratch_row.owner = 0; bg_cur_adj = 0; bg_ghost_frontier.a = 0;
      G g = g0;
      Abs pre_abs; Cells<EdgeMultiplicity> pre_cells; alpha(g, pre_abs, pre_cells);
      Abs *bg_self = &pre_abs; Abs *bg_old_self = &pre_abs;
      if (!(Y_PRE_U(bg_self))) continue; // requires multigraph.spec:220
      if (!(U_WF_SYM(&bg_self->base) && U_SIMPLE_(&bg_self->base, ID))) continue; // requires multigraph.spec:221
      if (!(U_WF_COUNT(&bg_self->base))) continue; // requires multigraph.spec:222
      if (!(U_WF_LABELS_uint(&bg_self->base))) continue; // requires multigraph.spec:223
      if (!(bg_self->totalEdgeNumber == M_SUM(bg_self->base.base.edgeLabels) && M_POS(bg_self->base.base.edgeLabels))) continue; // requires multigraph.spec:224
      if (!(vertex1 < bg_self->base.base.size && vertex2 < bg_self->base.base.size)) continue; // requires multigraph.spec:225
      
      ++calls;
      snprintf(bg_last_input, sizeof bg_last_input, "%s  then setEdgeMultiplicity(%d,%d,%d)  [G_P=%u G_Q=%u]", history.c_str(), (int)vertex1, (int)vertex2, (int)multiplicity, p, q);
      try { g.setEdgeMultiplicity(vertex1, vertex2, multiplicity); } BG_CATCH_ALL
      Abs post_abs; Cells<EdgeMultiplicity> post_cells; alpha(g, post_abs, post_cells);
      bg_self = &post_abs;
      if (!((!((bg_exc == BG_EXC_NONE && U_IS_PAIR(vertex1, vertex2))) || (bg_self->totalEdgeNumber == OLD(bg_self->totalEdgeNumber) - U_MVAL_(bg_self->base.base.edgeLabels, OLD) + (bg_size)multiplicity)))) bg_failed = "umset.total.delta multigraph.spec:235";
      if (bg_failed) {
        printf("CLAUSE FALSE ON THE REAL CODE: %s\n  history: %s\n  call: setEdgeMultiplicity(%d, %d, %d)  observed at G_P=%u G_Q=%u  exception code after call=%d\n", bg_failed, history.c_str(), (int)vertex1, (int)vertex2, (int)multiplicity, p, q, bg_exc);
        rc = 1;
      }
    }
  });
  printf("%ld calls replayed\n", calls);
  return rc;
}

/* failed obligation: UM__setEdgeMultiplicity:umset.total.delta
   unit: UM__setEdgeMultiplicity (projection C04)
   cbmc property: UM__setEdgeMultiplicity.postcondition.7
   description: Check ensures clause of contract contract::UM__setEdgeMultiplicity for function UM__setEdgeMultiplicity
   clause: {"fn": "UM__setEdgeMultiplicity", "kind": "ensures", "tags": ["C04", "C05", "C16"], "name": "umset.total.delta", "src": "multigraph.spec:235", "expr": "(bg_exc == BG_EXC_NONE && U_IS_PAIR(vertex1, vertex2)) ==> this->totalEdgeNumber == OLD(this->totalEdgeNumber) - U_MVAL_(this->base.base.edgeLabels, OLD) + (bg_size)multiplicity"}
   checker: goto-instrument --dfcc bg_harness --enforce-contract UM__setEdgeMultiplicity --replace-call-with-contract LUG_uint__hasEdge_2 --replace-call-with-contract UM__addMultiedge --replace-call-with-contract UM__removeMultiedge --apply-loop-contracts /verif/.work/check.C04.32415/UM__setEdgeMultiplicity.C04.gb /verif/.work/check.C04.32415/UM__setEdgeMultiplicity.C04.i.gb && cbmc /verif/.work/check.C04.32415/UM__setEdgeMultiplicity.C04.i.gb --object-bits 12 --bounds-check --signed-overflow-check --div-by-zero-check --no-standard-checks --json-ui --sat-solver cadical
*/
