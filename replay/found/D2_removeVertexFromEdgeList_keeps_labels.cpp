// native replay of LDG_VLabel__removeVertexFromEdgeList:directed.spec:130
// build: g++ -std=c++14 -O1 -w -fno-access-control -I /repo/include -I /verif/shim -I <gen: bin/extract --out DIR> -I /verif/contracts -I /verif/replay -fsanitize=address,undefined -fno-sanitize-recover=all -D_GLIBCXX_DEBUG -D_GLIBCXX_ASSERTIONS -g /verif/replay/out/C03_LDG_VLabel__removeVertexFromEdgeList_directed.spec_130.cpp -o /verif/replay/out/C03_LDG_VLabel__removeVertexFromEdgeList_directed.spec_130.bin
// result: FAILING INPUT FOUND (exit 1)
/* output of the replay on the real code:
CLAUSE FALSE ON THE REAL CODE: rmvertex.wf.labels directed.spec:288
  history: G g(2); g.addEdge(0,1,L(2),false);
  call: removeVertexFromEdgeList(0)  observed at G_P=0 G_Q=1  exception code after call=0
68 calls replayed
*/
#include "native.hpp"
#include "view.h"
typedef BaseGraph::LabeledDirectedGraph<VLabel> G;
typedef struct LDG_VLabel Abs;
typedef VLabel L;
#undef OLD
#define OLD(x) ([&] { Abs *bg_sv = bg_self; bg_self = bg_old_self; auto bg_v = (x); bg_self = bg_sv; return bg_v; }())
#define __CPROVER_is_fresh(p, n) 1
static const char *bg_failed = 0;
int main() {
  const int maxN = 3;
  long calls = 0;
  int rc = 0;
  bg_install_handlers();
  enumerate_graphs<G, L>(maxN, 2, false, [&](const G &g0, const std::string &history) {
    if (rc) return;
    const int N = (int)g0.getSize();
    for (VertexIndex vertex = 0; vertex <= (VertexIndex)N + 1; ++vertex)
    for (VertexIndex p = 0; p <= (VertexIndex)N; ++p) for (VertexIndex q = 0; q <= (VertexIndex)N; ++q) {
      if (rc) continue;
      G_P = p; G_Q = q; bg_exc = 0;
      bg_scratch_row.valid = 0; bg_scratch_row.owner = 0; bg_cur_adj = 0; bg_ghost_frontier.a = 0;
      G g = g0;
      Abs pre_abs; Cells<VLabel> pre_cells; alpha(g, pre_abs, pre_cells);
      Abs *bg_self = &pre_abs; Abs *bg_old_self = &pre_abs;
      if (!(D_PRE(bg_self))) continue; // requires directed.spec:280
      if (!(D_WF_LABELS_VLabel(bg_self))) continue; // requires directed.spec:282
      if (!(vertex < bg_self->size)) continue; // requires directed.spec:283
      
      ++calls;
      snprintf(bg_last_input, sizeof bg_last_input, "%s  then removeVertexFromEdgeList(%d)  [G_P=%u G_Q=%u]", history.c_str(), (int)vertex, p, q);
      try { g.removeVertexFromEdgeList(vertex); } BG_CATCH_ALL
      Abs post_abs; Cells<VLabel> post_cells; alpha(g, post_abs, post_cells);
      bg_self = &post_abs;
      if (!((!(vertex < OLD(bg_self->size)) || ((bg_exc == BG_EXC_NONE && D_WF_SAFE(bg_self) && bg_self->size == OLD(bg_self->size)))))) bg_failed = "rmvertex.ok directed.spec:286";
      if (!((!(bg_exc == BG_EXC_NONE) || (D_WF_LABELS_VLabel(bg_self))))) bg_failed = "rmvertex.wf.labels directed.spec:288";
      if (!((!((bg_exc == BG_EXC_NONE && (G_P == vertex || G_Q == vertex))) || ((D_CNT_PQ(bg_self) == 0 && D_CNT_QP(bg_self) == 0))))) bg_failed = "rmvertex.zero directed.spec:289";
      if (!((!((bg_exc == BG_EXC_NONE && G_P != vertex && G_Q != vertex)) || ((D_CNT_PQ(bg_self) == D_CNT_PQ_(bg_self, OLD) && D_CNT_QP(bg_self) == D_CNT_QP_(bg_self, OLD)))))) bg_failed = "rmvertex.frame directed.spec:290";
      if (!((!((bg_exc == BG_EXC_NONE && G_P == vertex)) || (D_LENP_(bg_self, ID) == 0)))) bg_failed = "rmvertex.row directed.spec:291";
      if (!((!((bg_exc == BG_EXC_NONE && G_Q == vertex)) || (D_LENQ_(bg_self, ID) == 0)))) bg_failed = "rmvertex.rowq directed.spec:292";
      if (!((!((bg_exc == BG_EXC_NONE && D_SIMPLE_(bg_self, OLD))) || (D_SIMPLE(bg_self))))) bg_failed = "rmvertex.simple directed.spec:294";
      if (!((!((bg_exc == BG_EXC_NONE && G_P != vertex && G_Q != vertex)) || ((M_PQ_SAME_X(bg_self->edgeLabels, OLD, LEQ_VLabel) && M_QP_SAME_X(bg_self->edgeLabels, OLD, LEQ_VLabel)))))) bg_failed = "rmvertex.labels.frame directed.spec:296";
      if (bg_failed) {
        printf("CLAUSE FALSE ON THE REAL CODE: %s\n  history: %s\n  call: removeVertexFromEdgeList(%d)  observed at G_P=%u G_Q=%u  exception code after call=%d\n", bg_failed, history.c_str(), (int)vertex, p, q, bg_exc);
        rc = 1;
      }
    }
  });
  printf("%ld calls replayed\n", calls);
  return rc;
}

/* failed obligation: LDG_VLabel__removeVertexFromEdgeList:directed.spec:130
   unit: LDG_VLabel__removeVertexFromEdgeList (projection C03)
   cbmc property: LDG_VLabel__removeEdge.precondition.2
   description: Check requires clause of contract contract::LDG_VLabel__removeEdge for function LDG_VLabel__removeEdge
   clause: {"fn": "LDG_VLabel__removeEdge", "kind": "requires", "tags": ["C03", "C04", "C05", "C06", "C07", "C09", "C10", "C13", "C14", "C16"], "name": "", "src": "directed.spec:130", "expr": "D_WF_LABELS_VLabel(this)"}
   checker: goto-instrument --dfcc bg_harness --enforce-contract LDG_VLabel__removeVertexFromEdgeList --replace-call-with-contract LDG_VLabel__removeEdge --apply-loop-contracts /verif/.work/check.C03.31659/LDG_VLabel__removeVertexFromEdgeList.C03.gb /verif/.work/check.C03.31659/LDG_VLabel__removeVertexFromEdgeList.C03.i.gb && cbmc /verif/.work/check.C03.31659/LDG_VLabel__removeVertexFromEdgeList.C03.i.gb --object-bits 12 --bounds-check --signed-overflow-check --conversion-check --div-by-zero-check --no-standard-checks --json-ui --sat-solver cadical
*/
