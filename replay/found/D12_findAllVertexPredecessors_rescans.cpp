// native replay of findAllVertexPredecessors__loop2:findAllVertexPredecessors__loop2:Check invariant after step for loop findAllVertexPredecessors__loop2.0
// build: g++ -std=c++14 -O2 -w -I /repo/include /tmp/ev19/replay/C19_findAllVertexPredecessors__loop2_findAllVertexPredecessors__loop2_Check_invariant_after_step_for_loop_findAllVertexP.cpp -o /tmp/ev19/replay/C19_findAllVertexPredecessors__loop2_findAllVertexPredecessors__loop2_Check_invariant_after_step_for_loop_findAllVertexP.bin
// result: FAILING INPUT FOUND (exit 1)
/* output of the replay on the real code:
CLAUSE FALSE ON THE REAL CODE: bfsall.once (C19): more neighbourhood scans than V+E
  graph: 5 vertices, edges (0,0) (0,1) (1,1) (1,3) (1,4) (2,0)
  call: findAllVertexPredecessors(g, 2): 12 scans, V+E = 11
*/
#include "BaseGraph/directed_graph.hpp"
#include "BaseGraph/algorithms/paths.hpp"
#include <algorithm>
#include <cstdio>
using namespace BaseGraph;
static long scans;
template <class L> struct CountingGraph : LabeledDirectedGraph<L> {
  using LabeledDirectedGraph<L>::LabeledDirectedGraph;
  const Successors &getOutNeighbours(VertexIndex v) const { ++scans; return LabeledDirectedGraph<L>::getOutNeighbours(v); }
};
int main() {
  long calls = 0;
  for (int n = 0; n <= 5; ++n) {
    int pairs = n * n;
    for (unsigned long m = 0; m < (1ul << pairs); ++m) {
      CountingGraph<NoLabel> g(n); long E = 0;
      for (int i = 0; i < n; ++i) for (int j = 0; j < n; ++j) if (m >> (i * n + j) & 1) { g.addEdge(i, j); ++E; }
      for (int s = 0; s <= n; ++s) {
        ++calls; scans = 0; const char *bad = 0; long detail = 0;
        try {
          auto r = algorithms::findAllVertexPredecessors(g, s);
          if (s >= n) bad = "bfsall.reject: no std::out_of_range for a source >= getSize()";
          else {
            if (scans > n + E) { bad = "bfsall.once (C19): more neighbourhood scans than V+E"; detail = scans; }
            if (r.first[s] != 0 || !r.second[s].empty()) bad = "bfsall.source";
            for (int q = 0; q < n && !bad; ++q) {
              if (q != s && r.second[q].empty() && r.first[q] != algorithms::BASEGRAPH_VERTEX_MAX) bad = "bfsall.sentinel";
              for (auto p : r.second[q]) {
                if (std::count(r.second[q].begin(), r.second[q].end(), p) != 1) bad = "bfsall.pred: predecessor listed twice";
                if (!g.hasEdge(p, q)) bad = "bfsall.pred: listed predecessor is not an in-neighbour";
              }
            }
          }
        } catch (std::out_of_range &) { if (s < n) bad = "bfsall.ok: std::out_of_range for a valid source"; }
        if (bad) {
          printf("CLAUSE FALSE ON THE REAL CODE: %s\n  graph: %d vertices, edges", bad, n);
          for (int i = 0; i < n; ++i) for (int j = 0; j < n; ++j) if (m >> (i * n + j) & 1) printf(" (%d,%d)", i, j);
          printf("\n  call: findAllVertexPredecessors(g, %d): %ld scans, V+E = %ld\n", s, scans, n + E);
          return 1;
        }
      }
      if (n == 5 && m > 400000) break; /* the first 400000 five-vertex graphs (ascending edge masks) */
    }
  }
  printf("%ld searches replayed\n", calls);
  return 0;
}

/* failed obligation: findAllVertexPredecessors__loop2:findAllVertexPredecessors__loop2:Check invariant after step for loop findAllVertexPredecessors__loop2.0
   unit: findAllVertexPredecessors__loop2 (projection C19)
   cbmc property: findAllVertexPredecessors__loop2.loop_invariant_step.5
   description: Check invariant after step for loop findAllVertexPredecessors__loop2.0
   clause: null
   checker: goto-instrument --dfcc bg_harness --enforce-contract findAllVertexPredecessors__loop2 --apply-loop-contracts /verif/.work/check.C19.26697/findAllVertexPredecessors__loop2.C19.gb /verif/.work/check.C19.26697/findAllVertexPredecessors__loop2.C19.i.gb && cbmc /verif/.work/check.C19.26697/findAllVertexPredecessors__loop2.C19.i.gb --object-bits 12 --bounds-check --signed-overflow-check --div-by-zero-check --no-standard-checks --json-ui --sat-solver cadical
*/
