// native replay of LUG_VLabel__getDirectedGraph:LUG_VLabel__getDirectedGraph:Check invariant after step for loop LUG_VLabel__getDirectedGraph.0
// build: g++ -std=c++14 -O1 -w -fno-access-control -DBG_L=VLabel -I /repo/include -I /verif/shim -I <gen: bin/extract --out DIR> -I /verif/contracts -I /verif/replay -fsanitize=address,undefined -fno-sanitize-recover=all -D_GLIBCXX_DEBUG -D_GLIBCXX_ASSERTIONS -g /tmp/ev9/replay/C09_LUG_VLabel__getDirectedGraph_LUG_VLabel__getDirectedGraph_Check_invariant_after_step_for_loop_LUG_VLabel__getDirecte.cpp -o /tmp/ev9/replay/C09_LUG_VLabel__getDirectedGraph_LUG_VLabel__getDirectedGraph_Check_invariant_after_step_for_loop_LUG_VLabel__getDirecte.bin
// result: FAILING INPUT FOUND (exit 1)
/* output of the replay on the real code:
CLAUSE FALSE ON THE REAL CODE: udir.label convert.spec:53
  history: G g(2); g.addEdge(0,1,L(2),false);
  call: getDirectedGraph()  observed at G_P=0 G_Q=1  exception code after call=0
42 calls replayed
*/
#include "native.hpp"
#include "view.h"
typedef BaseGraph::LabeledUndirectedGraph<VLabel> G;
typedef struct LUG_VLabel Abs;
typedef VLabel L;
#undef OLD
#define OLD(x) ([&] { Abs *bg_sv = bg_self; bg_self = bg_old_self; auto bg_v = (x); bg_self = bg_sv; return bg_v; }())
#define __CPROVER_is_fresh(p, n) 1
static const char *bg_failed = 0;
int main() {
  const int maxN = 3;
  long calls = 0;
  int rc = 0;
  bg_install_handlers();
  enumerate_graphs<G, L>(maxN, 2, true, [&](const G &g0, const std::string &history) {
    if (rc) return;
    const int N = (int)g0.getSize();
    for (VertexIndex p = 0; p <= (VertexIndex)N; ++p) for (VertexIndex q = 0; q <= (VertexIndex)N; ++q) {
      if (rc) continue;
      G_P = p; G_Q = q; bg_exc = 0;
      bg_scratch_row.valid = 0; bg_scratch_row.owner = 0; bg_cur_adj = 0; bg_ghost_frontier.a = 0;
      G g = g0;
      Abs pre_abs; Cells<VLabel> pre_cells; alpha(g, pre_abs, pre_cells);
      Abs *bg_self = &pre_abs; Abs *bg_old_self = &pre_abs;
      if (!(U_PRE(bg_self))) continue; // requires convert.spec:42
      if (!(U_WF_SYM(bg_self))) continue; // requires convert.spec:43
      if (!(U_WF_LABELS_VLabel(bg_self))) continue; // requires convert.spec:44
      struct LDG_VLabel bg_ret; Cells<VLabel> ret_cells; BaseGraph::LabeledDirectedGraph<VLabel> real_ret(0);
      ++calls;
      snprintf(bg_last_input, sizeof bg_last_input, "%s  then getDirectedGraph()  [G_P=%u G_Q=%u]", history.c_str(), p, q);
      try { real_ret = g.getDirectedGraph(); } BG_CATCH_ALL
      alpha(real_ret, bg_ret, ret_cells);
      Abs post_abs; Cells<VLabel> post_cells; alpha(g, post_abs, post_cells);
      bg_self = &post_abs;
      if (!(bg_exc == BG_EXC_NONE || bg_exc == BG_INVALID_ARGUMENT)) bg_failed = "udir.exc convert.spec:46";
      if (!(bg_exc == BG_EXC_NONE || !(bg_ghost_lookup.src == (G_P <= G_Q ? G_P : G_Q) && bg_ghost_lookup.dst == (G_P <= G_Q ? G_Q : G_P)))) bg_failed = "udir.nothrow convert.spec:47";
      if (!((!(bg_exc == BG_EXC_NONE) || ((D_WF_SAFE(&bg_ret) && bg_ret.size == bg_self->base.size))))) bg_failed = "udir.ok convert.spec:48";
      if (!((!(bg_exc == BG_EXC_NONE) || (D_WF_COUNT(&bg_ret))))) bg_failed = "udir.cnt convert.spec:49";
      if (!((!(bg_exc == BG_EXC_NONE) || (D_WF_LABELS_VLabel(&bg_ret))))) bg_failed = "udir.wf.labels convert.spec:50";
      if (!((!(bg_exc == BG_EXC_NONE) || ((D_CNT_PQ(&bg_ret) == U_CNT(bg_self) && D_CNT_QP(&bg_ret) == U_CNT(bg_self)))))) bg_failed = "udir.pq convert.spec:51";
      if (!((!((bg_exc == BG_EXC_NONE && U_CNT(bg_self) > 0)) || ((LEQ_VLabel(M_CELL_PQ(bg_ret.edgeLabels), U_VAL(bg_self)) && LEQ_VLabel(M_CELL_QP(bg_ret.edgeLabels), U_VAL(bg_self))))))) bg_failed = "udir.label convert.spec:53";
      if (bg_failed) {
        printf("CLAUSE FALSE ON THE REAL CODE: %s\n  history: %s\n  call: getDirectedGraph()  observed at G_P=%u G_Q=%u  exception code after call=%d\n", bg_failed, history.c_str(), p, q, bg_exc);
        rc = 1;
      }
    }
  });
  printf("%ld calls replayed\n", calls);
  return rc;
}

/* failed obligation: LUG_VLabel__getDirectedGraph:LUG_VLabel__getDirectedGraph:Check invariant after step for loop LUG_VLabel__getDirectedGraph.0
   unit: LUG_VLabel__getDirectedGraph (projection C09)
   cbmc property: LUG_VLabel__getDirectedGraph.loop_invariant_step.7
   description: Check invariant after step for loop LUG_VLabel__getDirectedGraph.0
   clause: null
   checker: goto-instrument --dfcc bg_harness --enforce-contract LUG_VLabel__getDirectedGraph --replace-call-with-contract LDG_VLabel__addEdge_4 --replace-call-with-contract LDG_VLabel__addReciprocalEdge_3 --replace-call-with-contract LDG_VLabel__ctor --replace-call-with-contract LUG_VLabel_Edges_EIt__deref --replace-call-with-contract LUG_VLabel_Edges_EIt__ne --replace-call-with-contract LUG_VLabel_Edges_EIt__preinc --replace-call-with-contract LUG_VLabel_Edges__begin --replace-call-with-contract LUG_VLabel_Edges__end --replace-call-with-contract LUG_VLabel__getEdgeLabel --apply-loop-contracts /verif/.work/check.C09.20908/LUG_VLabel__getDirectedGraph.C09.gb /verif/.work/check.C09.20908/LUG_VLabel__getDirectedGraph.C09.i.gb && cbmc /verif/.work/check.C09.20908/LUG_VLabel__getDirectedGraph.C09.i.gb --object-bits 12 --bounds-check --signed-overflow-check --div-by-zero-check --no-standard-checks --json-ui --sat-solver cadical
*/
