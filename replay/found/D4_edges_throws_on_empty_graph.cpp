// native replay of LDG_VLabel_Edges__begin:ebegin.noexc
// build: g++ -std=c++14 -O1 -w -fno-access-control -DBG_L=VLabel -I /repo/include -I /verif/shim -I <gen: bin/extract --out DIR> -I /verif/contracts -I /verif/replay /verif/replay/out/C08_LDG_VLabel_Edges__begin_ebegin.noexc.cpp -o /verif/replay/out/C08_LDG_VLabel_Edges__begin_ebegin.noexc.bin
// result: FAILING INPUT FOUND (exit 1)
/* output of the replay on the real code:
ENUMERATION WRONG ON THE REAL CODE: edges() threw
  history: G g(0);  exception code=1, 0 entries yielded, 0 stored
1 traversals replayed
*/
#include "native.hpp"
typedef BaseGraph::LabeledDirectedGraph<VLabel> G;
typedef VLabel L;
int main() {
  int rc = 0; long calls = 0;
  bg_install_handlers();
  enumerate_graphs<G, L>(3, 2, false, [&](const G &g0, const std::string &history) {
    if (rc) return;
    snprintf(bg_last_input, sizeof bg_last_input, "%s  then a full traversal of edges()", history.c_str());
    ++calls;
    bg_exc = 0;
    std::vector<std::pair<unsigned, unsigned>> seen;
    try { for (auto e : g0.edges()) seen.push_back({e.first, e.second}); auto b = g0.edges().begin(); auto en = g0.edges().end(); (void)(b == en); } BG_CATCH_ALL
    std::vector<std::pair<unsigned, unsigned>> want;
    for (size_t i = 0; i < g0.getSize(); ++i) for (auto x : g0.getOutNeighbours(i)) if (!false || i <= x) want.push_back({(unsigned)i, x});
    if (bg_exc != 0 || seen != want) {
      printf("ENUMERATION WRONG ON THE REAL CODE: %s\n  history: %s  exception code=%d, %zu entries yielded, %zu stored\n",
             bg_exc ? "edges() threw" : "sequence differs from the adjacency lists", history.c_str(), bg_exc, seen.size(), want.size());
      rc = 1;
    }
  });
  printf("%ld traversals replayed\n", calls);
  return rc;
}

/* failed obligation: LDG_VLabel_Edges__begin:ebegin.noexc
   unit: LDG_VLabel_Edges__begin (projection C08)
   cbmc property: LDG_VLabel_Edges__begin.postcondition.1
   description: Check ensures clause of contract contract::LDG_VLabel_Edges__begin for function LDG_VLabel_Edges__begin
   clause: {"fn": "LDG_VLabel_Edges__begin", "kind": "ensures", "tags": ["C08", "C01", "C02", "C04", "C05", "C08", "C09", "C10", "C13", "C14"], "name": "ebegin.noexc", "src": "iter.spec:12", "expr": "bg_exc == BG_EXC_NONE"}
   checker: goto-instrument --dfcc bg_harness --enforce-contract LDG_VLabel_Edges__begin --apply-loop-contracts /verif/.work/check.C08.7972/LDG_VLabel_Edges__begin.C08.gb /verif/.work/check.C08.7972/LDG_VLabel_Edges__begin.C08.i.gb && cbmc /verif/.work/check.C08.7972/LDG_VLabel_Edges__begin.C08.i.gb --object-bits 12 --bounds-check --signed-overflow-check --div-by-zero-check --no-standard-checks --json-ui --sat-solver cadical
*/
