// native replay of findVertexPredecessors_2_NoLabel_LDG_NoLabel_u:bg_vec_sz__index:STL-PRE vector<size_t>::operator[] index out of range
// build: g++ -std=c++14 -O1 -w -fno-access-control -DBG_L=NoLabel -I /repo/include -I /verif/shim -I <gen: bin/extract --out DIR> -I /verif/contracts -I /verif/replay -fsanitize=address,undefined -fno-sanitize-recover=all -D_GLIBCXX_DEBUG -D_GLIBCXX_ASSERTIONS -g /tmp/ev7/replay/C07_findVertexPredecessors_2_NoLabel_LDG_NoLabel_u_bg_vec_sz__index_STL_PRE_vector_size_t_operator_index_out_of_range.cpp -o /tmp/ev7/replay/C07_findVertexPredecessors_2_NoLabel_LDG_NoLabel_u_bg_vec_sz__index_STL_PRE_vector_size_t_operator_index_out_of_range.bin
// result: FAILING INPUT FOUND (exit 3)
/* output of the replay on the real code:
/usr/include/c++/12/debug/vector:442:
In function:
    std::debug::vector<_Tp, _Allocator>::reference std::debug::vector<_Tp, 
    _Allocator>::operator[](size_type) [with _Tp = long unsigned int; 
    _Allocator = std::allocator<long unsigned int>; reference = long 
    unsigned int&; size_type = long unsigned int]

Error: attempt to subscript container with out-of-bounds index 0, but 
container only holds 0 elements.

Objects involved in the operation:
    sequence "this" @ 0x7ffc825a80e0 {
      type = std::debug::vector<unsigned long, std::allocator<unsigned long> >;
    }
CRASH OF THE REAL CODE (signal) on input: G g(0);  then findVertexPredecessors(g, 0)  [G_P=0 G_Q=0]
*/
#include "native.hpp"
#include "BaseGraph/algorithms/paths.hpp"
#include "view.h"
typedef BaseGraph::LabeledDirectedGraph<BaseGraph::NoLabel> G;
typedef struct LDG_NoLabel Abs;
typedef BaseGraph::NoLabel L;
#define __CPROVER_is_fresh(p, n) 1
const bg_size BG_VERTEX_MAX = 4294967295ul; bg_size bg_ghost_scans; VertexIndex bg_scratch_u;
static const char *bg_failed = 0;
int main() {
  long calls = 0; int rc = 0;
  bg_install_handlers();
  enumerate_graphs<G, L>(3, 1, false, [&](const G &g0, const std::string &history) {
    if (rc) return;
    const int N = (int)g0.getSize();
    for (VertexIndex vertex = 0; vertex <= (VertexIndex)N + 1; ++vertex)
    for (VertexIndex p = 0; p <= (VertexIndex)N; ++p) for (VertexIndex q = 0; q <= (VertexIndex)N; ++q) {
      if (rc) continue;
      G_P = p; G_Q = q; bg_exc = 0; bg_scratch_row.valid = 0; bg_scratch_row.owner = 0; bg_cur_adj = 0; bg_ghost_frontier.a = 0; bg_ghost_scans = 0;
      Abs graph_abs; Cells<NoLabel> graph_cells; alpha(g0, graph_abs, graph_cells); const Abs *graph = &graph_abs;
      if (!(D_FRESH_WF(graph) && bg_exc == BG_EXC_NONE && BG_SCRATCH_CLEAN)) continue; // requires paths.spec:38
      ++calls;
      snprintf(bg_last_input, sizeof bg_last_input, "%s  then findVertexPredecessors(g, %u)  [G_P=%u G_Q=%u]", history.c_str(), vertex, p, q);
      bg_preds bg_ret; bg_ret.first = bg_vec_sz(); bg_ret.second = bg_vec_u();
      try { auto r = BaseGraph::algorithms::findVertexPredecessors(g0, vertex); bg_ret.first = abs_vec(r.first); bg_ret.second = abs_vecu(r.second); } BG_CATCH_ALL
      if (!((!((bg_size)vertex >= graph->size) || (bg_exc == BG_OUT_OF_RANGE)))) bg_failed = "bfs.reject paths.spec:42";
      if (!((!((bg_size)vertex < graph->size) || ((bg_exc == BG_EXC_NONE && bg_ret.first.n == graph->size && bg_ret.second.n == graph->size))))) bg_failed = "bfs.ok paths.spec:43";
      if (bg_failed) {
        printf("CLAUSE FALSE ON THE REAL CODE: %s\n  history: %s\n  call: findVertexPredecessors(g, %u)  observed at G_P=%u G_Q=%u  exception code after call=%d\n", bg_failed, history.c_str(), vertex, p, q, bg_exc);
        rc = 1;
      }
    }
  });
  printf("%ld calls replayed\n", calls);
  return rc;
}

/* failed obligation: findVertexPredecessors_2_NoLabel_LDG_NoLabel_u:bg_vec_sz__index:STL-PRE vector<size_t>::operator[] index out of range
   unit: findVertexPredecessors_2_NoLabel_LDG_NoLabel_u (projection C07)
   cbmc property: bg_vec_sz__index.assertion.1
   description: STL-PRE vector<size_t>::operator[] index out of range
   clause: null
   checker: goto-instrument --dfcc bg_harness --enforce-contract findVertexPredecessors_2_NoLabel_LDG_NoLabel_u --replace-call-with-contract findVertexPredecessors_2_NoLabel_LDG_NoLabel_u__loop2 --apply-loop-contracts /verif/.work/check.C07.25148/findVertexPredecessors_2_NoLabel_LDG_NoLabel_u.C07.gb /verif/.work/check.C07.25148/findVertexPredecessors_2_NoLabel_LDG_NoLabel_u.C07.i.gb && cbmc /verif/.work/check.C07.25148/findVertexPredecessors_2_NoLabel_LDG_NoLabel_u.C07.i.gb --object-bits 12 --bounds-check --signed-overflow-check --div-by-zero-check --no-standard-checks --json-ui --sat-solver cadical
*/
