// native replay of DW__addReciprocalEdge:dwrecip.pq
// build: g++ -std=c++14 -O1 -w -fno-access-control -DBG_L=real -I /repo/include -I /verif/shim -I <gen: bin/extract --out DIR> -I /verif/contracts -I /verif/replay /tmp/ev16/replay/C16_DW__addReciprocalEdge_dwrecip.pq.cpp -o /tmp/ev16/replay/C16_DW__addReciprocalEdge_dwrecip.pq.bin
// result: FAILING INPUT FOUND (exit 1)
/* output of the replay on the real code:
CLAUSE FALSE ON THE REAL CODE: dwrecip.pq weighted.spec:348
  history: G g(2); g.addEdge(0,1,3.0,false);
  call: addReciprocalEdge(0, 1, 1)  observed at G_P=0 G_Q=1  exception code after call=0
653 calls replayed
*/
#include "native.hpp"
#include "view.h"
typedef BaseGraph::DirectedWeightedGraph G;
typedef struct DW Abs;
typedef double L;
#undef OLD
#define OLD(x) ([&] { Abs *bg_sv = bg_self; bg_self = bg_old_self; auto bg_v = (x); bg_self = bg_sv; return bg_v; }())
#define __CPROVER_is_fresh(p, n) 1
static const char *bg_failed = 0;
int main() {
  const int maxN = 3;
  long calls = 0;
  int rc = 0;
  bg_install_handlers();
  enumerate_graphs<G, L>(maxN, 2, false, [&](const G &g0, const std::string &history) {
    if (rc) return;
    const int N = (int)g0.getSize();
    for (VertexIndex source = 0; source <= (VertexIndex)N + 1; ++source)
    for (VertexIndex destination = 0; destination <= (VertexIndex)N + 1; ++destination)
    for (int force_i = 0; force_i < 2; ++force_i)
    for (VertexIndex p = 0; p <= (VertexIndex)N; ++p) for (VertexIndex q = 0; q <= (VertexIndex)N; ++q) {
      if (rc) continue;
      bool force = force_i != 0;
      G_P = p; G_Q = q; bg_exc = 0;
      bg_scratch_row.valid = 0; bg_scratch_row.owner = 0; bg_cur_adj = 0; bg_ghost_frontier.a = 0;
      G g = g0;
      Abs pre_abs; Cells<bg_real> pre_cells; alpha(g, pre_abs, pre_cells);
      Abs *bg_self = &pre_abs; Abs *bg_old_self = &pre_abs;
      if (!(X_PRE_D(bg_self) && W_TOTAL_RANGE(bg_self->totalWeight))) continue; // requires weighted.spec:337
      if (!(D_WF_COUNT(X_B(bg_self)))) continue; // requires weighted.spec:338
      if (!(D_WF_LABELS_real(X_B(bg_self)))) continue; // requires weighted.spec:339
      if (!((bg_size)bg_self->totalWeight == M_SUM(bg_self->base.edgeLabels))) continue; // requires weighted.spec:340
      if (!(source < bg_self->base.size && destination < bg_self->base.size)) continue; // requires weighted.spec:341
      
      ++calls;
      snprintf(bg_last_input, sizeof bg_last_input, "%s  then addReciprocalEdge(%d,%d,%d)  [G_P=%u G_Q=%u]", history.c_str(), (int)source, (int)destination, (int)force, p, q);
      try { g.addReciprocalEdge(source, destination, force); } BG_CATCH_ALL
      Abs post_abs; Cells<bg_real> post_cells; alpha(g, post_abs, post_cells);
      bg_self = &post_abs;
      if (!((!((bg_exc == BG_EXC_NONE && G_P != G_Q && (D_IS_PQ(source, destination) || D_IS_QP(source, destination)))) || ((D_CNT_PQ(X_B(bg_self)) == D_CNT_PQ_(X_B(bg_self), OLD) + ((force || D_CNT_PQ_(X_B(bg_self), OLD) == 0) ? 1 : 0) && D_CNT_QP(X_B(bg_self)) == D_CNT_QP_(X_B(bg_self), OLD) + ((force || D_CNT_QP_(X_B(bg_self), OLD) == 0) ? 1 : 0)))))) bg_failed = "dwrecip.pq weighted.spec:348";
      if (bg_failed) {
        printf("CLAUSE FALSE ON THE REAL CODE: %s\n  history: %s\n  call: addReciprocalEdge(%d, %d, %d)  observed at G_P=%u G_Q=%u  exception code after call=%d\n", bg_failed, history.c_str(), (int)source, (int)destination, (int)force, p, q, bg_exc);
        rc = 1;
      }
    }
  });
  printf("%ld calls replayed\n", calls);
  return rc;
}

/* failed obligation: DW__addReciprocalEdge:dwrecip.pq
   unit: DW__addReciprocalEdge (projection C16)
   cbmc property: DW__addReciprocalEdge.postcondition.4
   description: Check ensures clause of contract contract::DW__addReciprocalEdge for function DW__addReciprocalEdge
   clause: {"fn": "DW__addReciprocalEdge", "kind": "ensures", "tags": ["C05", "C16"], "name": "dwrecip.pq", "src": "weighted.spec:348", "expr": "(bg_exc == BG_EXC_NONE && G_P != G_Q && (D_IS_PQ(source, destination) || D_IS_QP(source, destination))) ==> (D_CNT_PQ(X_B(this)) == D_CNT_PQ_(X_B(this), OLD) + ((force || D_CNT_PQ_(X_B(this), OLD) == 0) ? 1 : 0) && D_CNT_QP(X_B(this)) == D_CNT_QP_(X_B(this), OLD) + ((force || D_CNT_QP_(X_B(this), OLD) == 0) ? 1 : 0))"}
   checker: goto-instrument --dfcc bg_harness --enforce-contract DW__addReciprocalEdge --replace-call-with-contract DW__addEdge --apply-loop-contracts /verif/.work/check.C16.2365/DW__addReciprocalEdge.C16.gb /verif/.work/check.C16.2365/DW__addReciprocalEdge.C16.i.gb && cbmc /verif/.work/check.C16.2365/DW__addReciprocalEdge.C16.i.gb --object-bits 12 --bounds-check --signed-overflow-check --div-by-zero-check --no-standard-checks --json-ui --sat-solver cadical
*/
