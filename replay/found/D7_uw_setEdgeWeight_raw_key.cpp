// native replay of UW__setEdgeWeight:uwset.weight
// build: g++ -std=c++14 -O1 -w -fno-access-control -DBG_L=real -I /repo/include -I /verif/shim -I <gen: bin/extract --out DIR> -I /verif/contracts -I /verif/replay /verif/replay/out/C05_UW__setEdgeWeight_uwset.weight.cpp -o /verif/replay/out/C05_UW__setEdgeWeight_uwset.weight.bin
// result: FAILING INPUT FOUND (exit 1)
/* output of the replay on the real code:
CLAUSE FALSE ON THE REAL CODE: uwset.weight weighted.spec:157
  history: G g(2); g.addEdge(0,1,3.0,false);
  call: setEdgeWeight(1, 0, 0)  observed at G_P=0 G_Q=1  exception code after call=0
394 calls replayed
*/
#include "native.hpp"
#include "view.h"
typedef BaseGraph::UndirectedWeightedGraph G;
typedef struct UW Abs;
typedef double L;
#undef OLD
#define OLD(x) ([&] { Abs *bg_sv = bg_self; bg_self = bg_old_self; auto bg_v = (x); bg_self = bg_sv; return bg_v; }())
#define __CPROVER_is_fresh(p, n) 1
static const char *bg_failed = 0;
int main() {
  const int maxN = 3;
  long calls = 0;
  int rc = 0;
  bg_install_handlers();
  enumerate_graphs<G, L>(maxN, 2, true, [&](const G &g0, const std::string &history) {
    if (rc) return;
    const int N = (int)g0.getSize();
    for (VertexIndex vertex1 = 0; vertex1 <= (VertexIndex)N + 1; ++vertex1)
    for (VertexIndex vertex2 = 0; vertex2 <= (VertexIndex)N + 1; ++vertex2)
    for (int newWeight_w = 0; newWeight_w <= 3; ++newWeight_w)
    for (VertexIndex p = 0; p <= (VertexIndex)N; ++p) for (VertexIndex q = 0; q <= (VertexIndex)N; ++q) {
      if (rc) continue;
      bg_real newWeight = newWeight_w;
      G_P = p; G_Q = q; bg_exc = 0;
      bg_scratch_row.valid = 0; bg_scratch_row.owner = 0; bg_cur_adj = 0; bg_ghost_frontier.a = 0;
      G g = g0;
      Abs pre_abs; Cells<bg_real> pre_cells; alpha(g, pre_abs, pre_cells);
      Abs *bg_self = &pre_abs; Abs *bg_old_self = &pre_abs;
      if (!(Y_PRE_U(bg_self))) continue; // requires weighted.spec:144
      if (!(U_WF_SYM(&bg_self->base))) continue; // requires weighted.spec:145
      if (!(U_WF_COUNT(&bg_self->base))) continue; // requires weighted.spec:146
      if (!(U_WF_LABELS_real(&bg_self->base))) continue; // requires weighted.spec:147
      if (!((bg_size)bg_self->totalWeight == M_SUM(bg_self->base.base.edgeLabels))) continue; // requires weighted.spec:148
      if (!(vertex1 < bg_self->base.base.size && vertex2 < bg_self->base.base.size)) continue; // requires weighted.spec:149
      
      ++calls;
      snprintf(bg_last_input, sizeof bg_last_input, "%s  then setEdgeWeight(%d,%d,%d)  [G_P=%u G_Q=%u]", history.c_str(), (int)vertex1, (int)vertex2, (int)newWeight, p, q);
      try { g.setEdgeWeight(vertex1, vertex2, (double)newWeight); } BG_CATCH_ALL
      Abs post_abs; Cells<bg_real> post_cells; alpha(g, post_abs, post_cells);
      bg_self = &post_abs;
      if (!((!((bg_exc == BG_EXC_NONE && U_IS_PAIR(vertex1, vertex2))) || ((U_HAS(&bg_self->base) && U_VAL(&bg_self->base) == newWeight))))) bg_failed = "uwset.weight weighted.spec:157";
      if (bg_failed) {
        printf("CLAUSE FALSE ON THE REAL CODE: %s\n  history: %s\n  call: setEdgeWeight(%d, %d, %d)  observed at G_P=%u G_Q=%u  exception code after call=%d\n", bg_failed, history.c_str(), (int)vertex1, (int)vertex2, (int)newWeight, p, q, bg_exc);
        rc = 1;
      }
    }
  });
  printf("%ld calls replayed\n", calls);
  return rc;
}

/* failed obligation: UW__setEdgeWeight:uwset.weight
   unit: UW__setEdgeWeight (projection C05)
   cbmc property: UW__setEdgeWeight.postcondition.5
   description: Check ensures clause of contract contract::UW__setEdgeWeight for function UW__setEdgeWeight
   clause: {"fn": "UW__setEdgeWeight", "kind": "ensures", "tags": ["C05"], "name": "uwset.weight", "src": "weighted.spec:157", "expr": "(bg_exc == BG_EXC_NONE && U_IS_PAIR(vertex1, vertex2)) ==> (U_HAS(&this->base) && U_VAL(&this->base) == newWeight)"}
   checker: goto-instrument --dfcc bg_harness --enforce-contract UW__setEdgeWeight --replace-call-with-contract LUG_real__hasEdge_2 --replace-call-with-contract UW__addEdge --apply-loop-contracts /verif/.work/check.C05.7902/UW__setEdgeWeight.C05.gb /verif/.work/check.C05.7902/UW__setEdgeWeight.C05.i.gb && cbmc /verif/.work/check.C05.7902/UW__setEdgeWeight.C05.i.gb --object-bits 12 --bounds-check --signed-overflow-check --div-by-zero-check --no-standard-checks --json-ui --sat-solver cadical
*/
