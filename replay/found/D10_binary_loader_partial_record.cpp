// native replay of loadBinaryEdgeList_1_NoLabel_LDG_NoLabel_string:loadBinaryEdgeList_1_NoLabel_LDG_NoLabel_string:Check invariant after step for loop loadBinaryEdgeList_1_NoLabel_LDG_NoLabel_str
// build: g++ -std=c++14 -O1 -w -fno-access-control -DBG_L=NoLabel -I /repo/include -I /verif/shim -I <gen: bin/extract --out DIR> -I /verif/contracts -I /verif/replay -fsanitize=address,undefined -fno-sanitize-recover=all -D_GLIBCXX_DEBUG -D_GLIBCXX_ASSERTIONS -g /tmp/ev15/replay/C15_loadBinaryEdgeList_1_NoLabel_LDG_NoLabel_string_loadBinaryEdgeList_1_NoLabel_LDG_NoLabel_string_Check_invariant_afte.cpp -o /tmp/ev15/replay/C15_loadBinaryEdgeList_1_NoLabel_LDG_NoLabel_string_loadBinaryEdgeList_1_NoLabel_LDG_NoLabel_string_Check_invariant_afte.bin
// result: FAILING INPUT FOUND (exit 1)
/* output of the replay on the real code:
CLAUSE FALSE ON THE REAL CODE: load.size io.spec:48
  file: 1 records (0,0), cut after byte 4 of 8
  call: loadBinaryEdgeList(path)  observed at G_P=0 G_Q=0  exception code after call=0, 1 edges returned
64 calls replayed
*/
#include "native.hpp"
#include "BaseGraph/fileio.hpp"
#include "view.h"
#include <fstream>
typedef BaseGraph::LabeledDirectedGraph<BaseGraph::NoLabel> RG;
typedef struct LDG_NoLabel RAbs;
#define __CPROVER_is_fresh(p, n) 1
bg_file_t bg_file; bg_bool bg_SYSTEM_IS_BIG_ENDIAN = 0;
static const char *bg_failed = 0;
int main(int argc, char **argv) {
  long calls = 0; int rc = 0; std::string path_s = std::string(argv[0]) + ".edges.bin"; const char *path = path_s.c_str();
  bg_install_handlers();
  const int V = 3, MAXREC = 3;
  for (int len = 0; len <= MAXREC && !rc; ++len) {
    long combos = 1; for (int k = 0; k < len; ++k) combos *= V * V;
    for (long c = 0; c < combos && !rc; ++c) {
      unsigned rec[MAXREC][2]; long cc = c; for (int k = 0; k < len; ++k) { rec[k][0] = cc % V; cc /= V; rec[k][1] = cc % V; cc /= V; }
      for (int cut = -1; cut <= 8 * len && !rc; ++cut) {   /* cut == -1: the file does not exist */
        std::remove(path);
        if (cut >= 0) { std::ofstream o(path, std::ios::binary); int n = 0;
          for (int k = 0; k < len; ++k) for (int fld = 0; fld < 2; ++fld) for (int b = 0; b < 4; ++b, ++n) if (n < cut) o.put((char)((rec[k][fld] >> (8 * b)) & 0xff)); }
        for (VertexIndex p = 0; p < (VertexIndex)V && !rc; ++p) for (VertexIndex q = 0; q < (VertexIndex)V && !rc; ++q) {
          G_P = p; G_Q = q; bg_exc = 0; bg_scratch_row.valid = 0; bg_scratch_row.owner = 0; bg_cur_adj = 0; bg_ghost_frontier.a = 0;
          int complete = cut < 0 ? 0 : cut / 8;
          bg_file.openable = cut >= 0; bg_file.nPQ = bg_file.nQP = bg_file.nOther = 0; bg_file.otherBound = 0;
          bg_file.tail = cut < 0 ? 0 : cut % 8; bg_file.bytes = cut < 0 ? 0 : cut;
          for (int k = 0; k < complete; ++k) {
            if (rec[k][0] == p && rec[k][1] == q) bg_file.nPQ++; else if (p != q && rec[k][0] == q && rec[k][1] == p) bg_file.nQP++;
            else { bg_file.nOther++; for (int fld = 0; fld < 2; ++fld) if (rec[k][fld] + 1 > bg_file.otherBound) bg_file.otherBound = rec[k][fld] + 1; } }
          const bg_string fileName_abs = {0}; const bg_string *fileName = &fileName_abs;
          if (!(__CPROVER_is_fresh(fileName, sizeof(*fileName)) && bg_exc == BG_EXC_NONE && BG_SCRATCH_CLEAN && BG_FILE_WF(bg_file) && !bg_SYSTEM_IS_BIG_ENDIAN && BG_HOST_BIG_ENDIAN == 0)) continue; // requires io.spec:35
          ++calls;
          snprintf(bg_last_input, sizeof bg_last_input, "%d records, file cut at byte %d of %d  [G_P=%u G_Q=%u]", len, cut, 8 * len, p, q);
          RG real_ret(0); try { real_ret = BaseGraph::io::loadBinaryEdgeList<BaseGraph::LabeledDirectedGraph, BaseGraph::NoLabel>(std::string(path)); } BG_CATCH_ALL
          RAbs bg_ret; Cells<NoLabel> ret_cells; alpha(real_ret, bg_ret, ret_cells);
          if (!(bg_exc == BG_EXC_NONE || bg_exc == BG_RUNTIME_ERROR || bg_exc == BG_OUT_OF_RANGE || bg_exc == BG_INVALID_ARGUMENT)) bg_failed = "load.exc io.spec:39";
          if (!((!(!bg_file.openable) || (bg_exc == BG_RUNTIME_ERROR)))) bg_failed = "load.noopen io.spec:40";
          if (!((!(bg_file.openable) || (bg_exc != BG_RUNTIME_ERROR)))) bg_failed = "load.open io.spec:41";
          if (!((!(bg_exc == BG_EXC_NONE) || (D_WF_SAFE(&bg_ret))))) bg_failed = "load.ok io.spec:42";
          if (!((!(bg_exc == BG_EXC_NONE) || (D_WF_COUNT(&bg_ret))))) bg_failed = "load.cnt io.spec:43";
          if (!((!(bg_exc == BG_EXC_NONE) || ((D_CNT_PQ(&bg_ret) == bg_file.nPQ && D_CNT_QP(&bg_ret) == (G_P == G_Q ? bg_file.nPQ : bg_file.nQP)))))) bg_failed = "load.exact io.spec:45";
          if (!((!(bg_exc == BG_EXC_NONE) || (bg_ret.edgeNumber == bg_file.nPQ + bg_file.nQP + bg_file.nOther)))) bg_failed = "load.count io.spec:46";
          if (!((!(bg_exc == BG_EXC_NONE) || ((((!(bg_file.nPQ + bg_file.nQP > 0) || (((bg_size)G_P < bg_ret.size && (bg_size)G_Q < bg_ret.size)))) && ((!(bg_file.nPQ + bg_file.nQP + bg_file.nOther == 0) || (bg_ret.size == 0)))))))) bg_failed = "load.size io.spec:48";
          if (bg_failed) {
            printf("CLAUSE FALSE ON THE REAL CODE: %s\n  file: %d records", bg_failed, len);
            for (int k = 0; k < len; ++k) printf(" (%u,%u)", rec[k][0], rec[k][1]);
            printf(cut < 0 ? ", file missing" : ", cut after byte %d of %d", cut, 8 * len);
            printf("\n  call: loadBinaryEdgeList(path)  observed at G_P=%u G_Q=%u  exception code after call=%d, %zu edges returned\n", p, q, bg_exc, real_ret.getEdgeNumber());
            rc = 1;
          }
        }
      }
    }
  }
  std::remove(path);
  printf("%ld calls replayed\n", calls);
  return rc;
}

/* failed obligation: loadBinaryEdgeList_1_NoLabel_LDG_NoLabel_string:loadBinaryEdgeList_1_NoLabel_LDG_NoLabel_string:Check invariant after step for loop loadBinaryEdgeList_1_NoLabel_LDG_NoLabel_str
   unit: loadBinaryEdgeList_1_NoLabel_LDG_NoLabel_string (projection C15)
   cbmc property: loadBinaryEdgeList_1_NoLabel_LDG_NoLabel_string.loop_invariant_step.5
   description: Check invariant after step for loop loadBinaryEdgeList_1_NoLabel_LDG_NoLabel_string.0
   clause: null
   checker: goto-instrument --dfcc bg_harness --enforce-contract loadBinaryEdgeList_1_NoLabel_LDG_NoLabel_string --replace-call-with-contract LDG_NoLabel__addEdge_3 --replace-call-with-contract LDG_NoLabel__ctor --replace-call-with-contract LDG_NoLabel__resize --replace-call-with-contract readBinaryValue --apply-loop-contracts /verif/.work/check.C15.18563/loadBinaryEdgeList_1_NoLabel_LDG_NoLabel_string.C15.gb /verif/.work/check.C15.18563/loadBinaryEdgeList_1_NoLabel_LDG_NoLabel_string.C15.i.gb && cbmc /verif/.work/check.C15.18563/loadBinaryEdgeList_1_NoLabel_LDG_NoLabel_string.C15.i.gb --object-bits 12 --bounds-check --signed-overflow-check --div-by-zero-check --no-standard-checks --json-ui --sat-solver cadical
*/
