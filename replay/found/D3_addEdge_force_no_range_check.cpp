// native replay of LDG_VLabel__addEdge_4:addEdge.reject
// build: g++ -std=c++14 -O1 -w -fno-access-control -I /repo/include -I /verif/shim -I <gen: bin/extract --out DIR> -I /verif/contracts -I /verif/replay /verif/replay/out/C07_LDG_VLabel__addEdge_4_addEdge.reject.cpp -o /verif/replay/out/C07_LDG_VLabel__addEdge_4_addEdge.reject.bin
// result: FAILING INPUT FOUND (exit 3)
/* output of the replay on the real code:
CRASH OF THE REAL CODE (signal) on input: G g(0);  then addEdge(0,0,7,1)  [G_P=0 G_Q=0]
*/
#include "native.hpp"
#include "view.h"
typedef BaseGraph::LabeledDirectedGraph<VLabel> G;
typedef struct LDG_VLabel Abs;
typedef VLabel L;
#undef OLD
#define OLD(x) ([&] { Abs *bg_sv = bg_self; bg_self = bg_old_self; auto bg_v = (x); bg_self = bg_sv; return bg_v; }())
#define __CPROVER_is_fresh(p, n) 1
static const char *bg_failed = 0;
int main() {
  const int maxN = 3;
  long calls = 0;
  int rc = 0;
  bg_install_handlers();
  enumerate_graphs<G, L>(maxN, 2, false, [&](const G &g0, const std::string &history) {
    if (rc) return;
    const int N = (int)g0.getSize();
    for (VertexIndex source = 0; source <= (VertexIndex)N + 1; ++source)
    for (VertexIndex destination = 0; destination <= (VertexIndex)N + 1; ++destination)
    for (int label_k = 7; label_k <= 11; label_k += 4)
    for (int force_i = 0; force_i < 2; ++force_i)
    for (VertexIndex p = 0; p <= (VertexIndex)N; ++p) for (VertexIndex q = 0; q <= (VertexIndex)N; ++q) {
      if (rc) continue;
      VLabel label_real = mk_label<VLabel>(label_k); VLabel label_abs = abs_label(label_real); const VLabel *label = &label_abs;
      bool force = force_i != 0;
      G_P = p; G_Q = q; bg_exc = 0;
      bg_scratch_row.valid = 0; bg_scratch_row.owner = 0; bg_cur_adj = 0; bg_ghost_frontier.a = 0;
      G g = g0;
      Abs pre_abs; Cells<VLabel> pre_cells; alpha(g, pre_abs, pre_cells);
      Abs *bg_self = &pre_abs; Abs *bg_old_self = &pre_abs;
      if (!(D_PRE(bg_self) && __CPROVER_is_fresh(label, sizeof(*label)))) continue; // requires directed.spec:101
      if (!(D_WF_LABELS_VLabel(bg_self))) continue; // requires directed.spec:103
      
      ++calls;
      snprintf(bg_last_input, sizeof bg_last_input, "%s  then addEdge(%d,%d,%d,%d)  [G_P=%u G_Q=%u]", history.c_str(), (int)source, (int)destination, (int)label_k, (int)force, p, q);
      try { g.addEdge(source, destination, label_real, force); } BG_CATCH_ALL
      Abs post_abs; Cells<VLabel> post_cells; alpha(g, post_abs, post_cells);
      bg_self = &post_abs;
      if (!((!((source >= OLD(bg_self->size) || destination >= OLD(bg_self->size))) || ((bg_exc == BG_OUT_OF_RANGE && D_SAME_VLabel(bg_self)))))) bg_failed = "addEdge.reject directed.spec:106";
      if (bg_failed) {
        printf("CLAUSE FALSE ON THE REAL CODE: %s\n  history: %s\n  call: addEdge(%d, %d, %d, %d)  observed at G_P=%u G_Q=%u  exception code after call=%d\n", bg_failed, history.c_str(), (int)source, (int)destination, (int)label_k, (int)force, p, q, bg_exc);
        rc = 1;
      }
    }
  });
  printf("%ld calls replayed\n", calls);
  return rc;
}

/* failed obligation: LDG_VLabel__addEdge_4:addEdge.reject
   unit: LDG_VLabel__addEdge_4 (projection C07)
   cbmc property: LDG_VLabel__addEdge_4.postcondition.1
   description: Check ensures clause of contract contract::LDG_VLabel__addEdge_4 for function LDG_VLabel__addEdge_4
   clause: {"fn": "LDG_VLabel__addEdge_4", "kind": "ensures", "tags": ["C07", "C17"], "name": "addEdge.reject", "src": "directed.spec:106", "expr": "(source >= OLD(this->size) || destination >= OLD(this->size)) ==> (bg_exc == BG_OUT_OF_RANGE && D_SAME_VLabel(this))"}
   checker: goto-instrument --dfcc bg_harness --enforce-contract LDG_VLabel__addEdge_4 --replace-call-with-contract LDG_VLabel__hasEdge_2 --apply-loop-contracts /verif/.work/check.C07.29312/LDG_VLabel__addEdge_4.C07.gb /verif/.work/check.C07.29312/LDG_VLabel__addEdge_4.C07.i.gb && cbmc /verif/.work/check.C07.29312/LDG_VLabel__addEdge_4.C07.i.gb --object-bits 12 --bounds-check --signed-overflow-check --conversion-check --div-by-zero-check --no-standard-checks --json-ui --sat-solver cadical
*/
