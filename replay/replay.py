"""Native replay of a failed obligation against the real code (DESIGN.md §7).

The failed contract clause -- the same text CBMC checked -- is compiled as C++
and evaluated on alpha(real pre-state), alpha(real post-state) around a call of
the REAL function from /repo's headers, over every small concrete graph, every
argument combination and every pair of observation points.  Obligations without
a clause of their own (loop invariants, callee preconditions, STL-PRE assertions)
are replayed with every ensures clause of the enclosing function as oracle, under
ASan/UBSan/_GLIBCXX_DEBUG.
"""
import os
import re
import subprocess

HERE = os.path.dirname(os.path.abspath(__file__))
ROOT = os.path.abspath(os.path.join(HERE, '..'))

try:
    import json as _json
    REFERENCE_SIGNATURES = _json.load(open(os.path.join(HERE, 'signatures.json')))
except Exception:
    REFERENCE_SIGNATURES = {}

CPP_LABEL = {'VLabel': 'VLabel', 'NoLabel': 'BaseGraph::NoLabel', 'uint': 'unsigned int', 'real': 'double'}
ABS_LABEL = {'VLabel': 'VLabel', 'NoLabel': 'NoLabel', 'uint': 'EdgeMultiplicity', 'real': 'bg_real'}

CLASSES = [
    (r'^LDG_(\w+?)__', 'BaseGraph::LabeledDirectedGraph<%s>', 'struct LDG_%s', False),
    (r'^LUG_(\w+?)__', 'BaseGraph::LabeledUndirectedGraph<%s>', 'struct LUG_%s', True),
]
FIXED = {
    'DM__': ('BaseGraph::DirectedMultigraph', 'struct DM', False, 'uint'),
    'UM__': ('BaseGraph::UndirectedMultigraph', 'struct UM', True, 'uint'),
    'DW__': ('BaseGraph::DirectedWeightedGraph', 'struct DW', False, 'real'),
    'UW__': ('BaseGraph::UndirectedWeightedGraph', 'struct UW', True, 'real'),
}


def classify(fname):
    for pre, (cpp, abst, undirected, lab) in FIXED.items():
        if fname.startswith(pre):
            return {'label': lab, 'graph': cpp, 'abs': abst, 'undirected': undirected,
                    'cpplabel': CPP_LABEL[lab], 'abslabel': ABS_LABEL[lab], 'fixed': True}
    for pat, cpp, abst, undirected in CLASSES:
        m = re.match(pat, fname)
        if m:
            lab = m.group(1)
            if lab not in CPP_LABEL:
                return None
            return {'label': lab, 'graph': cpp % CPP_LABEL[lab], 'abs': abst % lab, 'undirected': undirected,
                    'cpplabel': CPP_LABEL[lab], 'abslabel': ABS_LABEL[lab]}
    return None


def split_params(sig):
    m = re.match(r'^(.*?)\b(\w+)\((.*)\)$', sig, re.S)
    ret, name, ps = m.group(1).strip(), m.group(2), m.group(3).strip()
    params = []
    for p in ([x.strip() for x in ps.split(',')] if ps and ps != 'void' else []):
        m2 = re.match(r'^(.*?)(\w+)$', p)
        params.append((m2.group(1).strip(), m2.group(2)))
    return ret, name, params


def replay(prop, res, f, repo, index, outbase, gen, sp, max_n=3, timeout=240):
    unit = res['unit']
    ent = index['functions'].get(unit, {})
    target = ent.get('parent', unit) if '__loop' in unit else unit
    while '__loop' in target and index['functions'].get(target, {}).get('parent'):
        target = index['functions'][target]['parent']
    if '__loop' in target:
        # the outlined loop no longer exists in this extraction (the code's loop structure changed): its
        # enclosing function is the name up to the suffix
        target = re.sub(r'(__loop\d+)+$', '', target)
    m_edges = re.match(r'^(L[DU]G_\w+?)_Edges(_EIt)?__(\w+)$', target)
    if m_edges:
        return replay_edges(prop, res, f, repo, index, outbase, gen, sp, m_edges, max_n, timeout)
    if target.split('@')[0] in ('swapBytes', '_isSystemBigEndian', 'writeBinaryValue', 'readBinaryValue'):
        return replay_codec(prop, res, f, repo, outbase, gen, timeout)
    if target.startswith('loadBinaryEdgeList_1_NoLabel_'):
        return replay_loader(prop, res, f, repo, index, outbase, gen, sp, target, timeout)
    if target in ('LDG_NoLabel__ctor_2', 'LUG_NoLabel__ctor_2'):
        return replay_eseq(prop, f, repo, outbase, gen, sp, target, timeout)
    if target.startswith('findAllVertexPredecessors'):
        return replay_findall(prop, f, repo, outbase, timeout)
    if target.startswith('getSubgraph_2_') or target.startswith('findVertexPredecessors_2_'):
        return replay_free(prop, res, f, repo, index, outbase, gen, sp, target, max_n, timeout)
    info = classify(target)
    tent = index['functions'].get(target)
    if tent is None or tent.get('status') != 'ok':
        # the function no longer extracts (its shape changed): its C signature as of the reference extraction
        # (replay/signatures.json, regenerated with the contracts) still tells the driver how to call the real one
        tent = REFERENCE_SIGNATURES.get(target)
    if info is None or tent is None or tent.get('status') != 'ok' or target not in sp.contracts:
        return False, '// no native replay driver for %s\n' % target
    cl = f.get('clause')
    clauses = sp.contracts[target]
    own = cl is not None and cl.get('fn') == target and cl.get('kind') == 'ensures'
    if own:
        oracle = [c for c in clauses if c.kind == 'ensures' and c.src == cl['src']]
    else:
        oracle = [c for c in clauses if c.kind == 'ensures' and c.enabled(prop) and '__CPROVER_is_fresh' not in c.expr]
    pre = [c for c in clauses if c.kind == 'requires' and c.enabled(prop)]
    sanitize = not own
    src = gen_cpp(target, tent, info, pre, oracle, max_n, repo, gen, sanitize)
    if src is None:
        return False, '// no native replay rule for the signature of %s\n' % target
    cpp = outbase + '.cpp'
    exe = outbase + '.bin'
    open(cpp, 'w').write(src)
    cmd = ['g++', '-std=c++14', '-O1', '-w', '-fno-access-control', '-DBG_L=%s' % info['label'], '-I', os.path.join(repo, 'include'),
           '-I', os.path.join(ROOT, 'shim'), '-I', gen, '-I', os.path.join(ROOT, 'contracts'), '-I', HERE]
    if sanitize:
        cmd += ['-fsanitize=address,undefined', '-fno-sanitize-recover=all', '-D_GLIBCXX_DEBUG', '-D_GLIBCXX_ASSERTIONS', '-g']
    run_env = dict(os.environ, ASAN_OPTIONS='detect_leaks=0:handle_segv=0:handle_abort=0:handle_sigbus=0')
    cmd += [cpp, '-o', exe]
    r = subprocess.run(cmd, stdout=subprocess.PIPE, stderr=subprocess.STDOUT, text=True)
    header = '// native replay of %s\n// build: %s\n' % (f.get('key'), ' '.join(cmd).replace(gen, '<gen: bin/extract --out DIR>'))
    if r.returncode != 0:
        try:
            os.remove(cpp)
        except OSError:
            pass
        return False, header + '// replay did not compile:\n' + ''.join('// ' + l + '\n' for l in r.stdout.split('\n')[-30:]) + src
    try:
        r = subprocess.run([exe], stdout=subprocess.PIPE, stderr=subprocess.STDOUT, text=True, timeout=timeout,
                           env=run_env)
        out, code = r.stdout, r.returncode
    except subprocess.TimeoutExpired as e:
        out, code = 'TIMEOUT', 0
    for p in (exe, cpp):
        try:
            os.remove(p)
        except OSError:
            pass
    found = code != 0
    tail = '\n'.join(out.strip().split('\n')[-40:])
    text = header + '// result: %s\n/* output of the replay on the real code:\n%s\n*/\n%s' % (
        'FAILING INPUT FOUND (exit %d)' % code if found else 'no failing input among all graphs with <= %d vertices' % max_n,
        tail.replace('*/', '* /'), src)
    return found, text


def impl_to_c(e):
    """CBMC's `A ==> B` (lowest precedence, right associative) -> (!(A) || (B))"""
    out, i, n = '', 0, len(e)
    parts, cur, depth = [], '', 0
    while i < n:
        ch = e[i]
        if ch == '(':
            # find matching paren, transform inside
            d, j = 1, i + 1
            while j < n and d:
                d += (e[j] == '(') - (e[j] == ')')
                j += 1
            cur += '(' + impl_to_c(e[i + 1:j - 1]) + ')'
            i = j
            continue
        if e.startswith('==>', i):
            parts.append(cur)
            cur = ''
            i += 3
            continue
        cur += ch
        i += 1
    parts.append(cur)
    res = parts[-1].strip()
    for a in reversed(parts[:-1]):
        res = '(!(%s) || (%s))' % (a.strip(), res)
    return res


def replay_edges(prop, res, f, repo, index, outbase, gen, sp, m, max_n, timeout):
    """edge enumeration: the natively checkable part is `no exception, every stored entry exactly once`
    (a full traversal of every small graph compared with the adjacency lists)"""
    info = classify(m.group(1) + '__x')
    if info is None:
        return False, '// no native replay driver for %s\n' % m.group(0)
    src = '''#include "native.hpp"
typedef %s G;
typedef %s L;
int main() {
  int rc = 0; long calls = 0;
  bg_install_handlers();
  enumerate_graphs<G, L>(%d, 2, %s, [&](const G &g0, const std::string &history) {
    if (rc) return;
    snprintf(bg_last_input, sizeof bg_last_input, "%%s  then a full traversal of edges()", history.c_str());
    ++calls;
    bg_exc = 0;
    std::vector<std::pair<unsigned, unsigned>> seen;
    try { for (auto e : g0.edges()) seen.push_back({e.first, e.second}); auto b = g0.edges().begin(); auto en = g0.edges().end(); (void)(b == en); } BG_CATCH_ALL
    std::vector<std::pair<unsigned, unsigned>> want;
    for (size_t i = 0; i < g0.getSize(); ++i) for (auto x : g0.getOutNeighbours(i)) if (!%s || i <= x) want.push_back({(unsigned)i, x});
    if (bg_exc != 0 || seen != want) {
      printf("ENUMERATION WRONG ON THE REAL CODE: %%s\\n  history: %%s  exception code=%%d, %%zu entries yielded, %%zu stored\\n",
             bg_exc ? "edges() threw" : "sequence differs from the adjacency lists", history.c_str(), bg_exc, seen.size(), want.size());
      rc = 1;
    }
  });
  printf("%%ld traversals replayed\\n", calls);
  return rc;
}
''' % (info['graph'], info['cpplabel'], max_n, 'true' if info['undirected'] else 'false', 'true' if info['undirected'] else 'false')
    cpp, exe = outbase + '.cpp', outbase + '.bin'
    open(cpp, 'w').write(src)
    cmd = ['g++', '-std=c++14', '-O1', '-w', '-fno-access-control', '-DBG_L=%s' % info['label'], '-I', os.path.join(repo, 'include'),
           '-I', os.path.join(ROOT, 'shim'), '-I', gen, '-I', os.path.join(ROOT, 'contracts'), '-I', HERE, cpp, '-o', exe]
    r = subprocess.run(cmd, stdout=subprocess.PIPE, stderr=subprocess.STDOUT, text=True)
    header = '// native replay of %s\n// build: %s\n' % (f.get('key'), ' '.join(cmd).replace(gen, '<gen: bin/extract --out DIR>'))
    if r.returncode != 0:
        return False, header + '// replay did not compile:\n' + ''.join('// ' + l + '\n' for l in r.stdout.split('\n')[-20:]) + src
    try:
        r = subprocess.run([exe], stdout=subprocess.PIPE, stderr=subprocess.STDOUT, text=True, timeout=timeout)
        out, code = r.stdout, r.returncode
    except subprocess.TimeoutExpired:
        out, code = 'TIMEOUT', 0
    for pth in (exe, cpp):
        try:
            os.remove(pth)
        except OSError:
            pass
    found = code != 0
    return found, header + '// result: %s\n/* output of the replay on the real code:\n%s\n*/\n%s' % (
        'FAILING INPUT FOUND (exit %d)' % code if found else 'no failing input among all graphs with <= %d vertices' % max_n,
        '\n'.join(out.strip().split('\n')[-20:]), src)


def replay_codec(prop, res, f, repo, outbase, gen, timeout):
    """the byte-order leaf functions on THIS host: _isSystemBigEndian() against the compiler's __BYTE_ORDER__,
    swapBytes against a shift-based byte swap, writeBinaryValue's bytes against the little-endian encoding,
    readBinaryValue of those bytes against the value (clauses endian.ok, swap.ok, wr.ok, rd.ok)"""
    tmpf = outbase + '.bin.codec.bin'
    src = '''#include "BaseGraph/fileio.hpp"
#include <cstdio>
#include <fstream>
#include <string>
int main(int argc, char **argv) {
  int rc = 0;
  const std::string tmp = std::string(argv[0]) + ".codec.bin";
  const bool host_big = __BYTE_ORDER__ == __ORDER_BIG_ENDIAN__;
  if (BaseGraph::io::_isSystemBigEndian() != host_big) { printf("CLAUSE FALSE ON THE REAL CODE: endian.ok: _isSystemBigEndian() returns %d on a %s-endian host\\n", (int)BaseGraph::io::_isSystemBigEndian(), host_big ? "big" : "little"); rc = 1; }
  const unsigned vals[] = {0u, 1u, 258u, 0x01020304u, 0xfffefdfcu, 0x80000000u};
  for (unsigned v : vals) {
    unsigned s = v; BaseGraph::io::swapBytes(s);
    unsigned want = ((v & 0xffu) << 24) | ((v & 0xff00u) << 8) | ((v >> 8) & 0xff00u) | ((v >> 24) & 0xffu);
    if (s != want) { printf("CLAUSE FALSE ON THE REAL CODE: swap.ok: swapBytes(0x%08x) = 0x%08x\\n", v, s); rc = 1; }
    { std::ofstream o("%s", std::ios::binary); BaseGraph::io::writeBinaryValue(o, v); }
    unsigned char b[8] = {0}; long n = 0;
    { std::ifstream i("%s", std::ios::binary); i.read((char *)b, 8); n = i.gcount(); }
    if (n != 4 || b[0] != (v & 0xff) || b[1] != ((v >> 8) & 0xff) || b[2] != ((v >> 16) & 0xff) || b[3] != ((v >> 24) & 0xff)) {
      printf("CLAUSE FALSE ON THE REAL CODE: wr.ok: writeBinaryValue(0x%08x) wrote %ld bytes %02x %02x %02x %02x, little-endian is %02x %02x %02x %02x\\n",
             v, n, b[0], b[1], b[2], b[3], v & 0xff, (v >> 8) & 0xff, (v >> 16) & 0xff, (v >> 24) & 0xff); rc = 1; }
    { std::ofstream o("%s", std::ios::binary); for (int k = 0; k < 4; ++k) o.put((char)((v >> (8 * k)) & 0xff)); }
    unsigned r = 0xdeadbeef; bool ok;
    { std::ifstream i("%s", std::ios::binary); ok = (bool)BaseGraph::io::readBinaryValue(i, r); }
    if (!ok || r != v) { printf("CLAUSE FALSE ON THE REAL CODE: rd.ok: readBinaryValue of the little-endian bytes of 0x%08x gave 0x%08x (stream ok=%d)\\n", v, r, (int)ok); rc = 1; }
    { std::ofstream o("%s", std::ios::binary); o.put(1); o.put(2); }
    { std::ifstream i("%s", std::ios::binary); unsigned t = 7; if ((bool)BaseGraph::io::readBinaryValue(i, t)) { printf("CLAUSE FALSE ON THE REAL CODE: rd.ok: a 2-byte file satisfied a 4-byte read\\n"); rc = 1; } }
  }
  std::remove("%s");
  printf("%zu values replayed on this %s-endian host\\n", sizeof vals / sizeof *vals, host_big ? "big" : "little");
  return rc;
}
'''.replace('"%s"', 'tmp.c_str()')
    cpp, exe = outbase + '.cpp', outbase + '.bin'
    open(cpp, 'w').write(src)
    cmd = ['g++', '-std=c++14', '-O1', '-w', '-I', os.path.join(repo, 'include'), cpp, '-o', exe]
    r = subprocess.run(cmd, stdout=subprocess.PIPE, stderr=subprocess.STDOUT, text=True)
    header = '// native replay of %s\n// build: %s\n' % (f.get('key'), ' '.join(cmd))
    if r.returncode != 0:
        return False, header + '// replay did not compile:\n' + ''.join('// ' + l + '\n' for l in r.stdout.split('\n')[-20:]) + src
    try:
        r = subprocess.run([exe], stdout=subprocess.PIPE, stderr=subprocess.STDOUT, text=True, timeout=timeout)
        out, code = r.stdout, r.returncode
    except subprocess.TimeoutExpired:
        out, code = 'TIMEOUT', 0
    for pth in (exe, cpp, tmpf):
        try:
            os.remove(pth)
        except OSError:
            pass
    found = code != 0
    return found, header + '// result: %s\n/* output of the replay on the real code:\n%s\n*/\n%s' % (
        'FAILING INPUT FOUND (exit %d)' % code if found else 'no failing input on this host (the other byte order is only reachable in the verifier)',
        '\n'.join(out.strip().split('\n')[-20:]).replace('*/', '* /'), src)


def replay_findall(prop, f, repo, outbase, timeout):
    """findAllVertexPredecessors on the real code through a graph type that counts neighbourhood scans:
    every simple directed graph with <= 5 vertices (self-loops included), every source.  Oracles are the
    statements the contract clauses stand for: scans <= V+E (the bound of C19 that bfsall.once implies),
    every listed predecessor is an in-neighbour listed once, the source has distance 0 and no predecessor,
    a vertex without predecessor keeps the sentinel, out-of-range sources throw std::out_of_range."""
    src = '''#include "BaseGraph/directed_graph.hpp"
#include "BaseGraph/algorithms/paths.hpp"
#include <algorithm>
#include <cstdio>
using namespace BaseGraph;
static long scans;
template <class L> struct CountingGraph : LabeledDirectedGraph<L> {
  using LabeledDirectedGraph<L>::LabeledDirectedGraph;
  const Successors &getOutNeighbours(VertexIndex v) const { ++scans; return LabeledDirectedGraph<L>::getOutNeighbours(v); }
};
int main() {
  long calls = 0;
  for (int n = 0; n <= 5; ++n) {
    int pairs = n * n;
    for (unsigned long m = 0; m < (1ul << pairs); ++m) {
      CountingGraph<NoLabel> g(n); long E = 0;
      for (int i = 0; i < n; ++i) for (int j = 0; j < n; ++j) if (m >> (i * n + j) & 1) { g.addEdge(i, j); ++E; }
      for (int s = 0; s <= n; ++s) {
        ++calls; scans = 0; const char *bad = 0; long detail = 0;
        try {
          auto r = algorithms::findAllVertexPredecessors(g, s);
          if (s >= n) bad = "bfsall.reject: no std::out_of_range for a source >= getSize()";
          else {
            if (scans > n + E) { bad = "bfsall.once (C19): more neighbourhood scans than V+E"; detail = scans; }
            if (r.first[s] != 0 || !r.second[s].empty()) bad = "bfsall.source";
            for (int q = 0; q < n && !bad; ++q) {
              if (q != s && r.second[q].empty() && r.first[q] != algorithms::BASEGRAPH_VERTEX_MAX) bad = "bfsall.sentinel";
              for (auto p : r.second[q]) {
                if (std::count(r.second[q].begin(), r.second[q].end(), p) != 1) bad = "bfsall.pred: predecessor listed twice";
                if (!g.hasEdge(p, q)) bad = "bfsall.pred: listed predecessor is not an in-neighbour";
              }
            }
          }
        } catch (std::out_of_range &) { if (s < n) bad = "bfsall.ok: std::out_of_range for a valid source"; }
        if (bad) {
          printf("CLAUSE FALSE ON THE REAL CODE: %s\\n  graph: %d vertices, edges", bad, n);
          for (int i = 0; i < n; ++i) for (int j = 0; j < n; ++j) if (m >> (i * n + j) & 1) printf(" (%d,%d)", i, j);
          printf("\\n  call: findAllVertexPredecessors(g, %d): %ld scans, V+E = %ld\\n", s, scans, n + E);
          return 1;
        }
      }
      if (n == 5 && m > 400000) break; /* the first 400000 five-vertex graphs (ascending edge masks) */
    }
  }
  /* structured families on which path counts explode: ladders of completely connected layers of width 2 and 3
     (up to 10 layers), every source; and 20000 pseudo-random digraphs with 6..9 vertices (fixed seed) */
  for (int w = 2; w <= 3; ++w) for (int layers = 1; layers <= 10; ++layers) {
    int n = 2 + w * layers; CountingGraph<NoLabel> g(n); long E = 0;
    for (int k = 0; k < w; ++k) { g.addEdge(0, 1 + k); ++E; g.addEdge(1 + w * (layers - 1) + k, n - 1); ++E; }
    for (int l = 0; l + 1 < layers; ++l) for (int a = 0; a < w; ++a) for (int b = 0; b < w; ++b) { g.addEdge(1 + w * l + a, 1 + w * (l + 1) + b); ++E; }
    for (int s = 0; s < n; ++s) {
      ++calls; scans = 0; algorithms::findAllVertexPredecessors(g, s);
      if (scans > n + E) {
        printf("CLAUSE FALSE ON THE REAL CODE: bfsall.scans (C19): more neighbourhood scans than V+E\\n  graph: ladder of %d completely connected layers of width %d between vertex 0 and vertex %d\\n  call: findAllVertexPredecessors(g, %d): %ld scans, V+E = %ld\\n", layers, w, n - 1, s, scans, n + E);
        return 1;
      }
    }
  }
  unsigned long long rng = 88172645463325252ull;
  for (int t = 0; t < 20000; ++t) {
    rng ^= rng << 13; rng ^= rng >> 7; rng ^= rng << 17;
    int n = 6 + (int)(rng % 4); CountingGraph<NoLabel> g(n); long E = 0; unsigned long long bits = rng;
    for (int i = 0; i < n; ++i) for (int j = 0; j < n; ++j) { bits ^= bits << 13; bits ^= bits >> 7; bits ^= bits << 17; if (bits % 3 == 0) { g.addEdge(i, j); ++E; } }
    int s = (int)((rng >> 20) % n);
    ++calls; scans = 0; algorithms::findAllVertexPredecessors(g, s);
    if (scans > n + E) {
      printf("CLAUSE FALSE ON THE REAL CODE: bfsall.scans (C19): more neighbourhood scans than V+E\\n  graph: pseudo-random digraph #%d with %d vertices, edges", t, n);
      for (int i = 0; i < n; ++i) for (auto j : g.LabeledDirectedGraph<NoLabel>::getOutNeighbours(i)) printf(" (%d,%u)", i, j);
      printf("\\n  call: findAllVertexPredecessors(g, %d): %ld scans, V+E = %ld\\n", s, scans, n + E);
      return 1;
    }
  }
  printf("%ld searches replayed\\n", calls);
  return 0;
}
'''
    cpp, exe = outbase + '.cpp', outbase + '.bin'
    open(cpp, 'w').write(src)
    cmd = ['g++', '-std=c++14', '-O2', '-w', '-I', os.path.join(repo, 'include'), cpp, '-o', exe]
    r = subprocess.run(cmd, stdout=subprocess.PIPE, stderr=subprocess.STDOUT, text=True)
    header = '// native replay of %s\n// build: %s\n' % (f.get('key'), ' '.join(cmd))
    if r.returncode != 0:
        return False, header + '// replay did not compile:\n' + ''.join('// ' + l + '\n' for l in r.stdout.split('\n')[-20:]) + src
    try:
        r = subprocess.run([exe], stdout=subprocess.PIPE, stderr=subprocess.STDOUT, text=True, timeout=timeout)
        out, code = r.stdout, r.returncode
    except subprocess.TimeoutExpired:
        out, code = 'TIMEOUT', 0
    for pth in (exe, cpp):
        try:
            os.remove(pth)
        except OSError:
            pass
    found = code != 0
    return found, header + '// result: %s\n/* output of the replay on the real code:\n%s\n*/\n%s' % (
        'FAILING INPUT FOUND (exit %d)' % code if found else 'no failing input among all simple digraphs with <= 4 vertices, 400000 with 5, ladders of width 2-3 up to 10 layers, 20000 pseudo-random digraphs with 6-9 vertices',
        '\n'.join(out.strip().split('\n')[-20:]).replace('*/', '* /'), src)


def replay_eseq(prop, f, repo, outbase, gen, sp, target, timeout):
    """Graph(const std::list<Edge> &): every list of <= 3 pairs over 4 vertex indices, every (G_P,G_Q); the
    clauses are evaluated on alpha(list) = classified entry counts and alpha(constructed graph)"""
    info = classify(target)
    cl = f.get('clause')
    clauses = sp.contracts[target]
    own = cl is not None and cl.get('fn') == target and cl.get('kind') == 'ensures'
    oracle = [c for c in clauses if c.kind == 'ensures' and (c.src == cl['src'] if own else (c.enabled(prop) and '__CPROVER_is_fresh' not in c.expr))]
    pre = [c for c in clauses if c.kind == 'requires' and c.enabled(prop) and '__CPROVER_is_fresh' not in c.expr]
    L = ['#include "native.hpp"', '#include "view.h"', '#include <list>', 'typedef %s G;' % info['graph'], 'typedef %s Abs;' % info['abs'],
         '#define __CPROVER_is_fresh(p, n) 1', 'static const char *bg_failed = 0;',
         'int main() {', '  long calls = 0; int rc = 0; const int V = 4, MAXLEN = 3;', '  bg_install_handlers();',
         '  for (int len = 0; len <= MAXLEN && !rc; ++len) {',
         '    long combos = 1; for (int k = 0; k < len; ++k) combos *= V * V;',
         '    for (long c = 0; c < combos && !rc; ++c) {',
         '      std::list<BaseGraph::Edge> seq; long cc = c; for (int k = 0; k < len; ++k) { unsigned a = cc % V; cc /= V; unsigned b = cc % V; cc /= V; seq.push_back({a, b}); }',
         '      for (VertexIndex p = 0; p <= (VertexIndex)V && !rc; ++p) for (VertexIndex q = 0; q <= (VertexIndex)V && !rc; ++q) {',
         '        G_P = p; G_Q = q; bg_exc = 0; bg_scratch_row.valid = 0; bg_scratch_row.owner = 0; bg_cur_adj = 0; bg_ghost_frontier.a = 0;',
         '        bg_edgeseq es = {0, 0, 0, 0};',
         '        for (auto &e : seq) { if (e.first == p && e.second == q) es.nPQ++; else if (p != q && e.first == q && e.second == p) es.nQP++;',
         '          else { es.nOther++; if (e.first + 1 > es.bound) es.bound = e.first + 1; if (e.second + 1 > es.bound) es.bound = e.second + 1; } }',
         '        const bg_edgeseq *edgeSequence = &es;']
    for c in pre:
        L.append('        if (!(%s)) continue; // requires %s' % (cpp_clause(c.expr, 'NoLabel').replace('bg_self', 'bg_nothing'), c.src))
    L += ['        ++calls;',
          '        G *gp = 0; try { gp = new G(seq); } BG_CATCH_ALL',
          '        if (!gp) gp = new G(0);',
          '        Abs post_abs; Cells<NoLabel> post_cells; alpha(*gp, post_abs, post_cells); Abs *bg_self = &post_abs;']
    for c in oracle:
        L.append('        if (!(%s)) bg_failed = "%s %s";' % (cpp_clause(c.expr, 'NoLabel'), c.name, c.src))
    L += ['        if (bg_failed) {',
          '          printf("CLAUSE FALSE ON THE REAL CODE: %s\\n  call: Graph(std::list<Edge>{", bg_failed);',
          '          for (auto &e : seq) printf(" (%u,%u)", e.first, e.second);',
          '          printf(" })  observed at G_P=%u G_Q=%u  exception code=%d, size=%zu, edges=%zu\\n", p, q, bg_exc, gp->getSize(), gp->getEdgeNumber());',
          '          rc = 1;', '        }', '        delete gp;', '      }', '    }', '  }',
          '  printf("%ld constructions replayed\\n", calls);', '  return rc;', '}']
    src = '\n'.join(L) + '\n'
    cpp, exe = outbase + '.cpp', outbase + '.bin'
    open(cpp, 'w').write(src)
    cmd = ['g++', '-std=c++14', '-O1', '-w', '-fno-access-control', '-DBG_L=NoLabel', '-I', os.path.join(repo, 'include'),
           '-I', os.path.join(ROOT, 'shim'), '-I', gen, '-I', os.path.join(ROOT, 'contracts'), '-I', HERE,
           '-fsanitize=address,undefined', '-fno-sanitize-recover=all', '-D_GLIBCXX_DEBUG', '-D_GLIBCXX_ASSERTIONS', '-g', cpp, '-o', exe]
    r = subprocess.run(cmd, stdout=subprocess.PIPE, stderr=subprocess.STDOUT, text=True)
    header = '// native replay of %s\n// build: %s\n' % (f.get('key'), ' '.join(cmd).replace(gen, '<gen: bin/extract --out DIR>'))
    if r.returncode != 0:
        try:
            os.remove(cpp)
        except OSError:
            pass
        return False, header + '// replay did not compile:\n' + ''.join('// ' + l + '\n' for l in r.stdout.split('\n')[-30:]) + src
    try:
        r = subprocess.run([exe], stdout=subprocess.PIPE, stderr=subprocess.STDOUT, text=True, timeout=timeout,
                           env=dict(os.environ, ASAN_OPTIONS='detect_leaks=0:handle_segv=0:handle_abort=0:handle_sigbus=0'))
        out, code = r.stdout, r.returncode
    except subprocess.TimeoutExpired:
        out, code = 'TIMEOUT', 0
    for pth in (exe, cpp):
        try:
            os.remove(pth)
        except OSError:
            pass
    found = code != 0
    return found, header + '// result: %s\n/* output of the replay on the real code:\n%s\n*/\n%s' % (
        'FAILING INPUT FOUND (exit %d)' % code if found else 'no failing input among all lists of <= 3 pairs over 4 indices',
        '\n'.join(out.strip().split('\n')[-20:]).replace('*/', '* /'), src)


def replay_loader(prop, res, f, repo, index, outbase, gen, sp, target, timeout):
    """loadBinaryEdgeList<Graph, NoLabel>: every record sequence over 3 vertices of length <= 3, written little-endian,
    cut at EVERY byte offset, plus a file that cannot be opened; the contract clauses are evaluated on
    alpha(file) = classified complete records + tail bytes and alpha(returned graph)"""
    tent = index['functions'].get(target)
    if tent is None or tent.get('status') != 'ok' or target not in sp.contracts:
        return False, '// no native replay driver for %s\n' % target
    ret, name, params = split_params(tent['sig'])
    rinfo = classify(ret.replace('const ', '').strip()[len('struct '):] + '__x')
    if rinfo is None:
        return False, '// no native replay rule for the signature of %s\n' % target
    cl = f.get('clause')
    clauses = sp.contracts[target]
    own = cl is not None and cl.get('fn') == target and cl.get('kind') == 'ensures'
    oracle = [c for c in clauses if c.kind == 'ensures' and (c.src == cl['src'] if own else (c.enabled(prop) and '__CPROVER_is_fresh' not in c.expr))]
    pre = [c for c in clauses if c.kind == 'requires' and c.enabled(prop)]
    tmpf = outbase + '.bin.edges.bin'
    tmpl = 'BaseGraph::LabeledUndirectedGraph' if rinfo['undirected'] else 'BaseGraph::LabeledDirectedGraph'
    L = ['#include "native.hpp"', '#include "BaseGraph/fileio.hpp"', '#include "view.h"', '#include <fstream>',
         'typedef %s RG;' % rinfo['graph'], 'typedef %s RAbs;' % rinfo['abs'],
         '#define __CPROVER_is_fresh(p, n) 1', 'bg_file_t bg_file; bg_bool bg_SYSTEM_IS_BIG_ENDIAN = 0;', 'static const char *bg_failed = 0;',
         'int main(int argc, char **argv) {', '  long calls = 0; int rc = 0; std::string path_s = std::string(argv[0]) + ".edges.bin"; const char *path = path_s.c_str();', '  bg_install_handlers();',
         '  const int V = 3, MAXREC = 3;',
         '  for (int len = 0; len <= MAXREC && !rc; ++len) {',
         '    long combos = 1; for (int k = 0; k < len; ++k) combos *= V * V;',
         '    for (long c = 0; c < combos && !rc; ++c) {',
         '      unsigned rec[MAXREC][2]; long cc = c; for (int k = 0; k < len; ++k) { rec[k][0] = cc % V; cc /= V; rec[k][1] = cc % V; cc /= V; }',
         '      for (int cut = -1; cut <= 8 * len && !rc; ++cut) {   /* cut == -1: the file does not exist */',
         '        std::remove(path);',
         '        if (cut >= 0) { std::ofstream o(path, std::ios::binary); int n = 0;',
         '          for (int k = 0; k < len; ++k) for (int fld = 0; fld < 2; ++fld) for (int b = 0; b < 4; ++b, ++n) if (n < cut) o.put((char)((rec[k][fld] >> (8 * b)) & 0xff)); }',
         '        for (VertexIndex p = 0; p < (VertexIndex)V && !rc; ++p) for (VertexIndex q = 0; q < (VertexIndex)V && !rc; ++q) {',
         '          G_P = p; G_Q = q; bg_exc = 0; bg_scratch_row.valid = 0; bg_scratch_row.owner = 0; bg_cur_adj = 0; bg_ghost_frontier.a = 0;',
         '          int complete = cut < 0 ? 0 : cut / 8;',
         '          bg_file.openable = cut >= 0; bg_file.nPQ = bg_file.nQP = bg_file.nOther = 0; bg_file.otherBound = 0;',
         '          bg_file.tail = cut < 0 ? 0 : cut % 8; bg_file.bytes = cut < 0 ? 0 : cut;',
         '          for (int k = 0; k < complete; ++k) {',
         '            if (rec[k][0] == p && rec[k][1] == q) bg_file.nPQ++; else if (p != q && rec[k][0] == q && rec[k][1] == p) bg_file.nQP++;',
         '            else { bg_file.nOther++; for (int fld = 0; fld < 2; ++fld) if (rec[k][fld] + 1 > bg_file.otherBound) bg_file.otherBound = rec[k][fld] + 1; } }',
         '          const bg_string fileName_abs = {0}; const bg_string *fileName = &fileName_abs;']
    for c in pre:
        L.append('          if (!(%s)) continue; // requires %s' % (cpp_clause(c.expr, 'NoLabel'), c.src))
    L += ['          ++calls;',
          '          snprintf(bg_last_input, sizeof bg_last_input, "%d records, file cut at byte %d of %d  [G_P=%u G_Q=%u]", len, cut, 8 * len, p, q);',
          '          RG real_ret(0); try { real_ret = BaseGraph::io::loadBinaryEdgeList<%s, BaseGraph::NoLabel>(std::string(path)); } BG_CATCH_ALL' % tmpl,
          '          RAbs bg_ret; Cells<NoLabel> ret_cells; alpha(real_ret, bg_ret, ret_cells);']
    for c in oracle:
        L.append('          if (!(%s)) bg_failed = "%s %s";' % (cpp_clause(c.expr, 'NoLabel'), c.name, c.src))
    L += ['          if (bg_failed) {',
          '            printf("CLAUSE FALSE ON THE REAL CODE: %s\\n  file: %d records", bg_failed, len);',
          '            for (int k = 0; k < len; ++k) printf(" (%u,%u)", rec[k][0], rec[k][1]);',
          '            printf(cut < 0 ? ", file missing" : ", cut after byte %d of %d", cut, 8 * len);',
          '            printf("\\n  call: loadBinaryEdgeList(path)  observed at G_P=%u G_Q=%u  exception code after call=%d, %zu edges returned\\n", p, q, bg_exc, real_ret.getEdgeNumber());',
          '            rc = 1;', '          }', '        }', '      }', '    }', '  }',
          '  std::remove(path);', '  printf("%ld calls replayed\\n", calls);', '  return rc;', '}']
    src = '\n'.join(L) + '\n'
    cpp, exe = outbase + '.cpp', outbase + '.bin'
    open(cpp, 'w').write(src)
    cmd = ['g++', '-std=c++14', '-O1', '-w', '-fno-access-control', '-DBG_L=NoLabel', '-I', os.path.join(repo, 'include'),
           '-I', os.path.join(ROOT, 'shim'), '-I', gen, '-I', os.path.join(ROOT, 'contracts'), '-I', HERE,
           '-fsanitize=address,undefined', '-fno-sanitize-recover=all', '-D_GLIBCXX_DEBUG', '-D_GLIBCXX_ASSERTIONS', '-g', cpp, '-o', exe]
    r = subprocess.run(cmd, stdout=subprocess.PIPE, stderr=subprocess.STDOUT, text=True)
    header = '// native replay of %s\n// build: %s\n' % (f.get('key'), ' '.join(cmd).replace(gen, '<gen: bin/extract --out DIR>'))
    if r.returncode != 0:
        try:
            os.remove(cpp)
        except OSError:
            pass
        return False, header + '// replay did not compile:\n' + ''.join('// ' + l + '\n' for l in r.stdout.split('\n')[-30:]) + src
    try:
        r = subprocess.run([exe], stdout=subprocess.PIPE, stderr=subprocess.STDOUT, text=True, timeout=timeout,
                           env=dict(os.environ, ASAN_OPTIONS='detect_leaks=0:handle_segv=0:handle_abort=0:handle_sigbus=0'))
        out, code = r.stdout, r.returncode
    except subprocess.TimeoutExpired:
        out, code = 'TIMEOUT', 0
    for pth in (exe, cpp, tmpf):
        try:
            os.remove(pth)
        except OSError:
            pass
    found = code != 0
    return found, header + '// result: %s\n/* output of the replay on the real code:\n%s\n*/\n%s' % (
        'FAILING INPUT FOUND (exit %d)' % code if found else 'no failing input among all files of <= 3 records over 3 vertices cut at every byte',
        '\n'.join(out.strip().split('\n')[-20:]).replace('*/', '* /'), src)


FREE_CPP = {'getSubgraph': 'BaseGraph::algorithms::getSubgraph', 'findVertexPredecessors': 'BaseGraph::algorithms::findVertexPredecessors'}


def replay_free(prop, res, f, repo, index, outbase, gen, sp, target, max_n, timeout):
    """free function templates f(const Graph &graph, const std::unordered_set<VertexIndex> &vertices) -> Graph:
    every small graph, every subset of 0..n (n itself is out of range), every pair of observation points"""
    tent = index['functions'].get(target)
    if tent is None or tent.get('status') != 'ok' or target not in sp.contracts or tent['name'] not in FREE_CPP:
        return False, '// no native replay driver for %s\n' % target
    ret, name, params = split_params(tent['sig'])
    if len(params) != 2:
        return False, '// no native replay rule for the signature of %s\n' % target
    p2 = params[1][0].replace('const ', '').strip()
    rt = ret.replace('const ', '').strip()
    ginfo = classify(params[0][0].replace('const ', '').strip()[len('struct '):].rstrip('* ').strip() + '__x')
    if ginfo is None:
        return False, '// no native replay rule for the signature of %s\n' % target
    if p2 == 'VertexIndex' and rt == 'bg_preds':
        return replay_free_vertex(prop, f, repo, outbase, gen, sp, target, tent, ginfo, params, max_n, timeout)
    if not p2.startswith('bg_uset_u'):
        return False, '// no native replay rule for the signature of %s\n' % target
    rinfo = classify(rt[len('struct '):] + '__x')
    if rinfo is None:
        return False, '// no native replay rule for the signature of %s\n' % target
    gname, sname = params[0][1], params[1][1]
    cl = f.get('clause')
    clauses = sp.contracts[target]
    own = cl is not None and cl.get('fn') == target and cl.get('kind') == 'ensures'
    oracle = [c for c in clauses if c.kind == 'ensures' and (c.src == cl['src'] if own else (c.enabled(prop) and '__CPROVER_is_fresh' not in c.expr))]
    pre = [c for c in clauses if c.kind == 'requires' and c.enabled(prop)]
    L = ['#include "native.hpp"', '#include "BaseGraph/algorithms/topology.hpp"', '#include "view.h"',
         'typedef %s G;' % ginfo['graph'], 'typedef %s Abs;' % ginfo['abs'], 'typedef %s RG;' % rinfo['graph'],
         'typedef %s RAbs;' % rinfo['abs'], 'typedef %s L;' % ginfo['cpplabel'],
         '#define __CPROVER_is_fresh(p, n) 1', 'static const char *bg_failed = 0;',
         'int main() {', '  long calls = 0; int rc = 0;', '  bg_install_handlers();',
         '  enumerate_graphs<G, L>(%d, 2, %s, [&](const G &g0, const std::string &history) {' % (max_n, 'true' if ginfo['undirected'] else 'false'),
         '    if (rc) return;', '    const int N = (int)g0.getSize();',
         '    for (unsigned mask = 0; mask < (1u << (N + 1)); ++mask)',
         '    for (VertexIndex p = 0; p <= (VertexIndex)N; ++p) for (VertexIndex q = 0; q <= (VertexIndex)N; ++q) {',
         '      if (rc) continue;',
         '      G_P = p; G_Q = q; bg_exc = 0; bg_scratch_row.valid = 0; bg_scratch_row.owner = 0; bg_cur_adj = 0; bg_ghost_frontier.a = 0;',
         '      std::unordered_set<BaseGraph::VertexIndex> S; for (int v = 0; v <= N; ++v) if (mask >> v & 1) S.insert(v);',
         '      bg_uset_u %s_abs = abs_set(S); const bg_uset_u *%s = &%s_abs;' % (sname, sname, sname),
         '      Abs %s_abs; Cells<%s> %s_cells; alpha(g0, %s_abs, %s_cells); const Abs *%s = &%s_abs;' % (gname, ginfo['abslabel'], gname, gname, gname, gname, gname)]
    for c in pre:
        L.append('      if (!(%s)) continue; // requires %s' % (cpp_clause(c.expr, ginfo['label']), c.src))
    L += ['      ++calls;',
          '      snprintf(bg_last_input, sizeof bg_last_input, "%%s  then %s(g, subset mask %%u)  [G_P=%%u G_Q=%%u]", history.c_str(), mask, p, q);' % tent['name'],
          '      RG real_ret(0); try { real_ret = %s(g0, S); } BG_CATCH_ALL' % FREE_CPP[tent['name']],
          '      RAbs bg_ret; Cells<%s> ret_cells; alpha(real_ret, bg_ret, ret_cells);' % rinfo['abslabel']]
    for c in oracle:
        L.append('      if (!(%s)) bg_failed = "%s %s";' % (cpp_clause(c.expr, ginfo['label']), c.name, c.src))
    L += ['      if (bg_failed) {',
          '        printf("CLAUSE FALSE ON THE REAL CODE: %%s\\n  history: %%s\\n  call: %s(g, {members of mask %%u})  observed at G_P=%%u G_Q=%%u  exception code after call=%%d\\n", bg_failed, history.c_str(), mask, p, q, bg_exc);' % tent['name'],
          '        rc = 1;', '      }', '    }', '  });', '  printf("%ld calls replayed\\n", calls);', '  return rc;', '}']
    src = '\n'.join(L) + '\n'
    cpp, exe = outbase + '.cpp', outbase + '.bin'
    open(cpp, 'w').write(src)
    cmd = ['g++', '-std=c++14', '-O1', '-w', '-fno-access-control', '-DBG_L=%s' % ginfo['label'], '-I', os.path.join(repo, 'include'),
           '-I', os.path.join(ROOT, 'shim'), '-I', gen, '-I', os.path.join(ROOT, 'contracts'), '-I', HERE]
    if not own:
        cmd += ['-fsanitize=address,undefined', '-fno-sanitize-recover=all', '-D_GLIBCXX_DEBUG', '-D_GLIBCXX_ASSERTIONS', '-g']
    cmd += [cpp, '-o', exe]
    r = subprocess.run(cmd, stdout=subprocess.PIPE, stderr=subprocess.STDOUT, text=True)
    header = '// native replay of %s\n// build: %s\n' % (f.get('key'), ' '.join(cmd).replace(gen, '<gen: bin/extract --out DIR>'))
    if r.returncode != 0:
        try:
            os.remove(cpp)
        except OSError:
            pass
        return False, header + '// replay did not compile:\n' + ''.join('// ' + l + '\n' for l in r.stdout.split('\n')[-30:]) + src
    try:
        r = subprocess.run([exe], stdout=subprocess.PIPE, stderr=subprocess.STDOUT, text=True, timeout=timeout,
                           env=dict(os.environ, ASAN_OPTIONS='detect_leaks=0:handle_segv=0:handle_abort=0:handle_sigbus=0'))
        out, code = r.stdout, r.returncode
    except subprocess.TimeoutExpired:
        out, code = 'TIMEOUT', 0
    for pth in (exe, cpp):
        try:
            os.remove(pth)
        except OSError:
            pass
    found = code != 0
    return found, header + '// result: %s\n/* output of the replay on the real code:\n%s\n*/\n%s' % (
        'FAILING INPUT FOUND (exit %d)' % code if found else 'no failing input among all graphs with <= %d vertices' % max_n,
        '\n'.join(out.strip().split('\n')[-20:]).replace('*/', '* /'), src)


def replay_free_vertex(prop, f, repo, outbase, gen, sp, target, tent, ginfo, params, max_n, timeout):
    """f(const Graph &graph, VertexIndex vertex) -> Predecessors: every small graph, every vertex 0..n+1 (two of
    them out of range), every pair of observation points; the run is under ASan/UBSan/_GLIBCXX_DEBUG, so an
    out-of-bounds access of the real code is itself a failing input"""
    gname, vname = params[0][1], params[1][1]
    cl = f.get('clause')
    clauses = sp.contracts[target]
    own = cl is not None and cl.get('fn') == target and cl.get('kind') == 'ensures'
    oracle = [c for c in clauses if c.kind == 'ensures' and (c.src == cl['src'] if own else (c.enabled(prop) and '__CPROVER_is_fresh' not in c.expr))]
    pre = [c for c in clauses if c.kind == 'requires' and c.enabled(prop)]
    L = ['#include "native.hpp"', '#include "BaseGraph/algorithms/paths.hpp"', '#include "view.h"',
         'typedef %s G;' % ginfo['graph'], 'typedef %s Abs;' % ginfo['abs'], 'typedef %s L;' % ginfo['cpplabel'],
         '#define __CPROVER_is_fresh(p, n) 1', 'const bg_size BG_VERTEX_MAX = 4294967295ul; bg_size bg_ghost_scans; VertexIndex bg_scratch_u; VertexIndex bg_ghost_src; bg_size bg_ghost_pushes, bg_ghost_pushes_q;',
         'static const char *bg_failed = 0;',
         'int main() {', '  long calls = 0; int rc = 0;', '  bg_install_handlers();',
         '  enumerate_graphs<G, L>(%d, 1, %s, [&](const G &g0, const std::string &history) {' % (max_n, 'true' if ginfo['undirected'] else 'false'),
         '    if (rc) return;', '    const int N = (int)g0.getSize();',
         '    for (VertexIndex %s = 0; %s <= (VertexIndex)N + 1; ++%s)' % (vname, vname, vname),
         '    for (VertexIndex p = 0; p <= (VertexIndex)N; ++p) for (VertexIndex q = 0; q <= (VertexIndex)N; ++q) {',
         '      if (rc) continue;',
         '      G_P = p; G_Q = q; bg_exc = 0; bg_scratch_row.valid = 0; bg_scratch_row.owner = 0; bg_cur_adj = 0; bg_ghost_frontier.a = 0; bg_ghost_scans = 0;',
         '      Abs %s_abs; Cells<%s> %s_cells; alpha(g0, %s_abs, %s_cells); const Abs *%s = &%s_abs;' % (gname, ginfo['abslabel'], gname, gname, gname, gname, gname)]
    for c in pre:
        L.append('      if (!(%s)) continue; // requires %s' % (cpp_clause(c.expr, ginfo['label']), c.src))
    L += ['      ++calls;',
          '      snprintf(bg_last_input, sizeof bg_last_input, "%%s  then %s(g, %%u)  [G_P=%%u G_Q=%%u]", history.c_str(), %s, p, q);' % (tent['name'], vname),
          '      bg_preds bg_ret; bg_ret.first = bg_vec_sz(); bg_ret.second = bg_vec_u();',
          '      try { auto r = %s(g0, %s); bg_ret.first = abs_vec(r.first); bg_ret.second = abs_vecu(r.second); } BG_CATCH_ALL' % (FREE_CPP[tent['name']], vname)]
    for c in oracle:
        L.append('      if (!(%s)) bg_failed = "%s %s";' % (cpp_clause(c.expr, ginfo['label']), c.name, c.src))
    L += ['      if (bg_failed) {',
          '        printf("CLAUSE FALSE ON THE REAL CODE: %%s\\n  history: %%s\\n  call: %s(g, %%u)  observed at G_P=%%u G_Q=%%u  exception code after call=%%d\\n", bg_failed, history.c_str(), %s, p, q, bg_exc);' % (tent['name'], vname),
          '        rc = 1;', '      }', '    }', '  });', '  printf("%ld calls replayed\\n", calls);', '  return rc;', '}']
    src = '\n'.join(L) + '\n'
    cpp, exe = outbase + '.cpp', outbase + '.bin'
    open(cpp, 'w').write(src)
    cmd = ['g++', '-std=c++14', '-O1', '-w', '-fno-access-control', '-DBG_L=%s' % ginfo['label'], '-I', os.path.join(repo, 'include'),
           '-I', os.path.join(ROOT, 'shim'), '-I', gen, '-I', os.path.join(ROOT, 'contracts'), '-I', HERE,
           '-fsanitize=address,undefined', '-fno-sanitize-recover=all', '-D_GLIBCXX_DEBUG', '-D_GLIBCXX_ASSERTIONS', '-g', cpp, '-o', exe]
    r = subprocess.run(cmd, stdout=subprocess.PIPE, stderr=subprocess.STDOUT, text=True)
    header = '// native replay of %s\n// build: %s\n' % (f.get('key'), ' '.join(cmd).replace(gen, '<gen: bin/extract --out DIR>'))
    if r.returncode != 0:
        try:
            os.remove(cpp)
        except OSError:
            pass
        return False, header + '// replay did not compile:\n' + ''.join('// ' + l + '\n' for l in r.stdout.split('\n')[-30:]) + src
    try:
        r = subprocess.run([exe], stdout=subprocess.PIPE, stderr=subprocess.STDOUT, text=True, timeout=timeout,
                           env=dict(os.environ, ASAN_OPTIONS='detect_leaks=0:handle_segv=0:handle_abort=0:handle_sigbus=0'))
        out, code = r.stdout, r.returncode
    except subprocess.TimeoutExpired:
        out, code = 'TIMEOUT', 0
    for pth in (exe, cpp):
        try:
            os.remove(pth)
        except OSError:
            pass
    found = code != 0
    return found, header + '// result: %s\n/* output of the replay on the real code:\n%s\n*/\n%s' % (
        'FAILING INPUT FOUND (exit %d)' % code if found else 'no failing input among all graphs with <= %d vertices' % max_n,
        '\n'.join(out.strip().split('\n')[-24:]).replace('*/', '* /'), src)


def cpp_clause(expr, label):
    e = impl_to_c(expr)
    e = e.replace('__CPROVER_return_value', 'bg_ret')
    e = re.sub(r'\bthis\b', 'bg_self', e)
    return e


def gen_cpp(target, ent, info, pre, oracle, max_n, repo, gen, sanitize):
    ret, name, params = split_params(ent['sig'])
    lab = info['label']
    is_ctor = '__ctor' in target
    method = ent['name']
    loops, decls, args, clause_params, descr = [], [], [], [], []
    graph_param = None
    for t, n in params:
        if n == 'this':
            continue
        tt = t.replace('const ', '').strip()
        if tt == 'VertexIndex':
            loops.append('for (VertexIndex %s = 0; %s <= (VertexIndex)N + 1; ++%s)' % (n, n, n))
            args.append(n)
        elif tt == 'bg_bool':
            loops.append('for (int %s##i = 0; %s##i < 2; ++%s##i)'.replace('##', '_') % (n, n, n))
            decls.append('bool %s = %s_i != 0;' % (n, n))
            args.append(n)
        elif tt == 'bg_real':
            loops.append('for (int %s_w = 0; %s_w <= 3; ++%s_w)' % (n, n, n))
            decls.append('bg_real %s = %s_w;' % (n, n))
            args.append('(double)%s' % n)
        elif tt == 'bg_size':
            loops.append('for (bg_size %s = 0; %s <= (bg_size)N + 2; ++%s)' % (n, n, n))
            args.append(n)
        elif tt in ('VLabel *', 'NoLabel *', 'EdgeMultiplicity *', 'bg_real *') or tt.rstrip('*').strip() in (
                'VLabel', 'NoLabel', 'EdgeMultiplicity', 'bg_real'):
            loops.append('for (int %s_k = 7; %s_k <= 11; %s_k += 4)' % (n, n, n))
            decls.append('%s %s_real = mk_label<%s>(%s_k); %s %s_abs = abs_label(%s_real); const %s *%s = &%s_abs;' % (
                info['cpplabel'], n, info['cpplabel'], n, info['abslabel'], n, n, info['abslabel'], n, n))
            args.append('%s_real' % n)
        elif is_ctor and re.match(r'^struct (LDG|LUG)_\w+ \*$', tt) and classify(tt[len('struct '):-2] + '__x') and graph_param is None:
            graph_param = (n, classify(tt[len('struct '):-2] + '__x'))
            args.append('g0')
            continue
        else:
            return None
        clause_params.append(n)
        descr.append(n)
    rt = ret.replace('const ', '').strip()
    if rt == 'void' or is_ctor:
        retdecl, call_assign = '', ''
    elif rt in ('bg_bool', 'bg_size', 'VertexIndex'):
        retdecl, call_assign = '%s bg_ret = 0;' % rt, 'bg_ret = '
    elif rt in ('VLabel', 'NoLabel', 'EdgeMultiplicity', 'bg_real'):
        retdecl, call_assign = '%s bg_ret = %s{};' % (rt, rt), 'bg_ret = abs_label('
    elif re.match(r'^struct (LDG|LUG)_\w+$', rt) and classify(rt[len('struct '):] + '__x'):
        rinfo = classify(rt[len('struct '):] + '__x')
        retdecl, call_assign = '%s bg_ret; Cells<%s> ret_cells; %s real_ret(0);' % (rinfo['abs'], rinfo['abslabel'], rinfo['graph']), 'real_ret = '
    elif rt in ('bg_vec_sz', 'bg_mat_sz', 'bg_vec_real', 'bg_mat_real'):
        retdecl, call_assign = '%s bg_ret = %s();' % (rt, rt), 'bg_ret = abs_vec('
    else:
        retdecl, call_assign = '', ''
    close = ')' if call_assign.endswith('(') else ''
    L = []
    L.append('#include "native.hpp"')
    L.append('#include "view.h"')
    L.append('typedef %s G;' % info['graph'])
    if graph_param:
        L.append('typedef %s PG;' % graph_param[1]['graph'])
        L.append('typedef %s PAbs;' % graph_param[1]['abs'])
    L.append('typedef %s Abs;' % info['abs'])
    L.append('typedef %s L;' % info['cpplabel'])
    L.append('#undef OLD')
    L.append('#define OLD(x) ([&] { Abs *bg_sv = bg_self; bg_self = bg_old_self; auto bg_v = (x); bg_self = bg_sv; return bg_v; }())')
    L.append('#define __CPROVER_is_fresh(p, n) 1')
    L.append('static const char *bg_failed = 0;')
    L.append('int main() {')
    L.append('  const int maxN = %d;' % max_n)
    L.append('  long calls = 0;')
    L.append('  int rc = 0;')
    L.append('  bg_install_handlers();')
    if graph_param:
        L.append('  enumerate_graphs<PG, %s>(maxN, %d, %s, [&](const PG &g0, const std::string &history) {' % (
            graph_param[1]['cpplabel'], 2 if max_n <= 3 else 1, 'true' if graph_param[1]['undirected'] else 'false'))
    else:
        L.append('  enumerate_graphs<G, L>(maxN, %d, %s, [&](const G &g0, const std::string &history) {' % (
            2 if max_n <= 3 else 1, 'true' if info['undirected'] else 'false'))
    L.append('    if (rc) return;')
    L.append('    const int N = (int)g0.getSize();')
    if is_ctor and not graph_param:
        L.append('    if (N != 0 || g0.getEdgeNumber() != 0) return;')
    for lp in loops:
        L.append('    ' + lp)
    L.append('    for (VertexIndex p = 0; p <= (VertexIndex)N; ++p) for (VertexIndex q = 0; q <= (VertexIndex)N; ++q) {')
    L.append('      if (rc) continue;')
    for d in decls:
        L.append('      ' + d)
    L.append('      G_P = p; G_Q = q; bg_exc = 0;')
    L.append('      bg_scratch_row.valid = 0; bg_scratch_row.owner = 0; bg_cur_adj = 0; bg_ghost_frontier.a = 0;')
    if graph_param:
        L.append('      G g(0);')
        L.append('      PAbs %s_abs; Cells<%s> %s_cells; alpha(g0, %s_abs, %s_cells); const PAbs *%s = &%s_abs;' % (
            graph_param[0], graph_param[1]['abslabel'], graph_param[0], graph_param[0], graph_param[0], graph_param[0], graph_param[0]))
    else:
        L.append('      G g = g0;')
    L.append('      Abs pre_abs; Cells<%s> pre_cells; alpha(g, pre_abs, pre_cells);' % info['abslabel'])
    L.append('      Abs *bg_self = &pre_abs; Abs *bg_old_self = &pre_abs;')
    if not is_ctor:
        for c in pre:
            L.append('      if (!(%s)) continue; // requires %s' % (cpp_clause(c.expr, lab), c.src))
    L.append('      %s' % retdecl)
    L.append('      ++calls;')
    L.append('      snprintf(bg_last_input, sizeof bg_last_input, "%%s  then %s(%s)  [G_P=%%u G_Q=%%u]", history.c_str()%s, p, q);' % (
        method, ','.join('%d' for _ in descr), ''.join(', (int)%s' % (d if not d.endswith('label') else d + '_k') for d in descr)))
    if is_ctor:
        L.append('      G *gp = 0; try { gp = new G(%s); } BG_CATCH_ALL' % ', '.join(args))
        L.append('      if (!gp) gp = new G(0);')
        L.append('      Abs post_abs; Cells<%s> post_cells; alpha(*gp, post_abs, post_cells);' % info['abslabel'])
    else:
        L.append('      try { %sg.%s(%s)%s; } BG_CATCH_ALL' % (call_assign, method, ', '.join(args), close))
        if call_assign == 'real_ret = ':
            L.append('      alpha(real_ret, bg_ret, ret_cells);')
        L.append('      Abs post_abs; Cells<%s> post_cells; alpha(g, post_abs, post_cells);' % info['abslabel'])
    L.append('      bg_self = &post_abs;')
    for c in oracle:
        L.append('      if (!(%s)) bg_failed = "%s %s";' % (cpp_clause(c.expr, lab), c.name, c.src))
    L.append('      if (bg_failed) {')
    L.append('        printf("CLAUSE FALSE ON THE REAL CODE: %s\\n  history: %s\\n  call: ' + method + '(' + ', '.join('%d' for _ in descr) +
             ')  observed at G_P=%u G_Q=%u  exception code after call=%d\\n", bg_failed, history.c_str()' +
             ''.join(', (int)%s' % (d if not d.endswith('label') else d + '_k') for d in descr) + ', p, q, bg_exc);')
    L.append('        rc = 1;')
    L.append('      }')
    if is_ctor:
        L.append('      delete gp;')
    L.append('    }')
    L.append('  });')
    L.append('  printf("%ld calls replayed\\n", calls);')
    L.append('  return rc;')
    L.append('}')
    return '\n'.join(L) + '\n'
