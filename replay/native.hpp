// Native replay support (DESIGN.md §7): the abstraction function alpha maps a
// REAL BaseGraph object (built from /repo's headers) to the very structures the
// contracts talk about (shim/abs_types.h, gen/types.h), so that a contract
// clause -- the same text CBMC checked -- is evaluated on the real code's
// pre- and post-state.  Compiled with -fno-access-control: alpha reads the
// protected members directly.
#pragma once
#include "BaseGraph/directed_graph.hpp"
#include "BaseGraph/undirected_graph.hpp"
#include "BaseGraph/directed_multigraph.hpp"
#include "BaseGraph/undirected_multigraph.hpp"
#include "BaseGraph/directed_weighted_graph.hpp"
#include "BaseGraph/undirected_weighted_graph.hpp"
#include <cstdio>
#include <cstdlib>
#include <cstring>
#include <functional>
#include <sstream>
#include <stdexcept>
#include <string>
#include <vector>

#define __CPROVER_size_t unsigned long
extern "C" {
#include "abs_types.h"
}
#include "types.h"

// ghost globals (definitions; CBMC has them in shim/abstract_globals.c)
int bg_exc;
VertexIndex G_P, G_Q;
bg_scratch_row_t bg_scratch_row;
struct bg_adj *bg_cur_adj;
bg_ghost_frontier_t bg_ghost_frontier;
bg_ghost_lookup_t bg_ghost_lookup;
bg_size bg_scratch_sz;
bg_vec_sz bg_scratch_vec_sz;
bg_real bg_scratch_real;
bg_vec_real bg_scratch_vec_real;
bg_scratch_val_VLabel_t bg_scratch_val_VLabel;
bg_scratch_val_NoLabel_t bg_scratch_val_NoLabel;
bg_scratch_val_uint_t bg_scratch_val_uint;
bg_scratch_val_real_t bg_scratch_val_real;
const VLabel bg_zero_VLabel = {0};
const NoLabel bg_zero_NoLabel = {0};
const EdgeMultiplicity bg_zero_uint = 0;
const bg_real bg_zero_real = 0;

// the opaque label: the C struct of the shim, with the operator the library needs
inline bool operator==(const VLabel &a, const VLabel &b) { return a.v == b.v; }

// label conversions real -> abstract
inline VLabel abs_label(const VLabel &l) { return l; }
inline NoLabel abs_label(const BaseGraph::NoLabel &) { return NoLabel{0}; }
inline EdgeMultiplicity abs_label(unsigned int m) { return m; }
inline bg_real abs_label(double w) { return (bg_real)(long)w; } // A-REAL: replay uses integral weights only

inline bg_size abs_num(const VLabel &) { return 0; }
inline bg_size abs_num(const BaseGraph::NoLabel &) { return 0; }
inline bg_size abs_num(unsigned int m) { return m; }
inline bg_size abs_num(double w) { return (bg_size)(long)w; }

template <class T>
struct Cells { bg_list rp, rq; T vpq, vqp; };

// ---- alpha for the adjacency vector and the label map
template <class L, class AbsMap, class T>
void alpha_base(const BaseGraph::LabeledDirectedGraph<L> &g, bg_adj &a, AbsMap &m, Cells<T> &st,
                bg_size &size, bg_size &edgeNumber) {
    size = g.size;
    edgeNumber = g.edgeNumber;
    a.n = g.adjacencyList.size();
    a.rowP = &st.rp;
    a.rowQ = &st.rq;
    st.rp = bg_list{{0, 0, 0, 0}, G_P, 0};
    st.rq = bg_list{{0, 0, 0, 0}, G_Q, 0};
    a.r = {0, 0, 0, 0, 0, 0, 0};
    for (size_t i = 0; i < g.adjacencyList.size(); ++i) {
        bg_list row{{0, 0, 0, 0}, i, 0};
        for (auto x : g.adjacencyList[i]) {
            row.c.len++;
            if (x == G_P) row.c.nP++;
            else if (x == G_Q) row.c.nQ++;
            if ((bg_size)x >= i) row.c.up++;
            if ((bg_size)x + 1 > row.bound) row.bound = (bg_size)x + 1;
        }
        a.r.total += row.c.len;
        a.r.totalUp += row.c.up;
        if (i == G_P) st.rp = row;
        else if (i == G_Q) st.rq = row;
        else {
            a.r.restLen += row.c.len;
            a.r.restUp += row.c.up;
            a.r.restInQ += (G_P == G_Q ? row.c.nP : row.c.nQ);
            a.r.restInP += row.c.nP;
            if (row.bound > a.r.restBound) a.r.restBound = row.bound;
        }
    }
    m.valPQ = &st.vpq;
    m.valQP = &st.vqp;
    st.vpq = T{};
    st.vqp = T{};
    m.s.hasPQ = m.s.hasQP = 0;
    BaseGraph::Edge pq{G_P, G_Q}, qp{G_Q, G_P};
    auto it = g.edgeLabels.find(pq);
    if (it != g.edgeLabels.end()) { m.s.hasPQ = 1; st.vpq = abs_label(it->second); }
    if (G_P != G_Q) {
        it = g.edgeLabels.find(qp);
        if (it != g.edgeLabels.end()) { m.s.hasQP = 1; st.vqp = abs_label(it->second); }
    }
    m.s.restCount = g.edgeLabels.size() - (m.s.hasPQ ? 1 : 0) - (m.s.hasQP ? 1 : 0);
    m.s.restSum = 0;
    for (auto &kv : g.edgeLabels)
        if (!(kv.first == pq) && !(G_P != G_Q && kv.first == qp)) m.s.restSum += abs_num(kv.second);
}

template <class L, class Abs, class T>
void alpha(const BaseGraph::LabeledDirectedGraph<L> &g, Abs &a, Cells<T> &st) {
    alpha_base(g, a.adjacencyList, a.edgeLabels, st, a.size, a.edgeNumber);
}
template <class L, class Abs, class T>
void alpha(const BaseGraph::LabeledUndirectedGraph<L> &g, Abs &a, Cells<T> &st) {
    alpha_base((const BaseGraph::LabeledDirectedGraph<L> &)g, a.base.adjacencyList, /* C cast: protected base */
               a.base.edgeLabels, st, a.base.size, a.base.edgeNumber);
}

// multigraphs and weighted graphs: base object + running total
template <class Abs, class T>
void alpha(const BaseGraph::DirectedMultigraph &g, Abs &a, Cells<T> &st) {
    alpha(g.asLabeledGraph(), a.base, st);
    a.totalEdgeNumber = g.totalEdgeNumber;
}
template <class Abs, class T>
void alpha(const BaseGraph::UndirectedMultigraph &g, Abs &a, Cells<T> &st) {
    alpha(g.asLabeledGraph(), a.base, st);
    a.totalEdgeNumber = g.totalEdgeNumber;
}
template <class Abs, class T>
void alpha(const BaseGraph::DirectedWeightedGraph &g, Abs &a, Cells<T> &st) {
    alpha(g.asLabeledGraph(), a.base, st);
    a.totalWeight = (bg_real)(long)g.totalWeight;
}
template <class Abs, class T>
void alpha(const BaseGraph::UndirectedWeightedGraph &g, Abs &a, Cells<T> &st) {
    alpha(g.asLabeledGraph(), a.base, st);
    a.totalWeight = (bg_real)(long)g.totalWeight;
}

// ---- alpha for vector<size_t> / AdjacencyMatrix results: the entries at the observation points
inline bg_vec_sz abs_vec(const std::vector<size_t> &v) {
    bg_vec_sz r;
    r.n = v.size();
    r.vP = G_P < v.size() ? v[G_P] : 0;
    r.vQ = G_Q < v.size() ? v[G_Q] : 0;
    return r;
}
inline bg_vec_real abs_vec(const std::vector<double> &v) {
    bg_vec_real r;
    r.n = v.size();
    r.vP = G_P < v.size() ? (bg_real)(long)v[G_P] : 0;
    r.vQ = G_Q < v.size() ? (bg_real)(long)v[G_Q] : 0;
    return r;
}
inline bg_mat_real abs_vec(const std::vector<std::vector<double>> &m) {
    bg_mat_real r;
    r.n = m.size();
    r.m = m.empty() ? 0 : m[0].size();
    r.rowP = G_P < m.size() ? abs_vec(m[G_P]) : bg_vec_real{r.m, 0, 0};
    r.rowQ = G_Q < m.size() ? abs_vec(m[G_Q]) : bg_vec_real{r.m, 0, 0};
    return r;
}
inline bg_vec_u abs_vecu(const std::vector<BaseGraph::VertexIndex> &v) {
    bg_vec_u r;
    r.n = v.size();
    r.vP = G_P < v.size() ? v[G_P] : 0;
    r.vQ = G_Q < v.size() ? v[G_Q] : 0;
    return r;
}
inline bg_mat_sz abs_vec(const std::vector<std::vector<size_t>> &m) {
    bg_mat_sz r;
    r.n = m.size();
    r.m = m.empty() ? 0 : m[0].size();
    r.rowP = G_P < m.size() ? abs_vec(m[G_P]) : bg_vec_sz{r.m, 0, 0};
    r.rowQ = G_Q < m.size() ? abs_vec(m[G_Q]) : bg_vec_sz{r.m, 0, 0};
    return r;
}

// ---- alpha for unordered_set<VertexIndex>
#include <unordered_set>
inline bg_uset_u abs_set(const std::unordered_set<BaseGraph::VertexIndex> &S) {
    bg_uset_u r;
    r.hasP = S.count(G_P) != 0;
    r.hasQ = G_P != G_Q && S.count(G_Q) != 0;
    r.restCount = S.size() - (r.hasP ? 1 : 0) - (r.hasQ ? 1 : 0);
    r.restBound = 0;
    for (auto x : S)
        if (x != G_P && x != G_Q && (bg_size)x + 1 > r.restBound) r.restBound = (bg_size)x + 1;
    return r;
}

// ---- enumeration of small concrete graphs through the public API
template <class L> L mk_label(int k);
template <> inline VLabel mk_label<VLabel>(int k) { return VLabel{k}; }
template <> inline BaseGraph::NoLabel mk_label<BaseGraph::NoLabel>(int) { return BaseGraph::NoLabel(); }
template <> inline unsigned int mk_label<unsigned int>(int k) { return (unsigned)k; }
template <> inline double mk_label<double>(int k) { return (double)k; }

struct State { std::string history; };

template <class G>
void bg_add(G &g, int i, int j, int lab, bool force, std::ostringstream &h) {
    typedef decltype(g.getEdgeLabel(0, 0)) L;
    g.addEdge(i, j, mk_label<L>(lab), force);
    h << " g.addEdge(" << i << "," << j << ",L(" << lab << ")," << (force ? "true" : "false") << ");";
}
inline void bg_add(BaseGraph::DirectedMultigraph &g, int i, int j, int lab, bool force, std::ostringstream &h) {
    g.addMultiedge(i, j, lab % 3 + 1, force);
    h << " g.addMultiedge(" << i << "," << j << "," << lab % 3 + 1 << "," << (force ? "true" : "false") << ");";
}
inline void bg_add(BaseGraph::UndirectedMultigraph &g, int i, int j, int lab, bool force, std::ostringstream &h) {
    g.addMultiedge(i, j, lab % 3 + 1, force);
    h << " g.addMultiedge(" << i << "," << j << "," << lab % 3 + 1 << "," << (force ? "true" : "false") << ");";
}
inline void bg_add(BaseGraph::DirectedWeightedGraph &g, int i, int j, int lab, bool force, std::ostringstream &h) {
    g.addEdge(i, j, (double)(lab % 5 + 1), force);
    h << " g.addEdge(" << i << "," << j << "," << lab % 5 + 1 << ".0," << (force ? "true" : "false") << ");";
}
inline void bg_add(BaseGraph::UndirectedWeightedGraph &g, int i, int j, int lab, bool force, std::ostringstream &h) {
    g.addEdge(i, j, (double)(lab % 5 + 1), force);
    h << " g.addEdge(" << i << "," << j << "," << lab % 5 + 1 << ".0," << (force ? "true" : "false") << ");";
}

// all graphs on n <= maxN vertices whose ordered pairs carry 0..maxCopies copies
template <class G, class L>
void enumerate_graphs(int maxN, int maxCopies, bool undirected,
                      const std::function<void(const G &, const std::string &)> &visit) {
    for (int n = 0; n <= maxN; ++n) {
        std::vector<std::pair<int, int>> pairs;
        for (int i = 0; i < n; ++i)
            for (int j = (undirected ? i : 0); j < n; ++j) pairs.push_back({i, j});
        std::vector<int> cnt(pairs.size(), 0);
        while (true) {
            G g(n);
            std::ostringstream h;
            h << "G g(" << n << ");";
            for (size_t k = 0; k < pairs.size(); ++k)
                for (int c = 0; c < cnt[k]; ++c) {
                    int lab = 10 * pairs[k].first + pairs[k].second + 1;
                    bg_add(g, pairs[k].first, pairs[k].second, lab, c > 0, h);
                }
            visit(g, h.str());
            // states reached through removals as well (a change may leave something behind that only a later
            // call trips over): from every duplicate-free graph, remove one vertex's edges / clear everything
            bool simple = true;
            for (int c : cnt) simple = simple && c <= 1;
            if (simple && n > 0) {
                for (int v = 0; v < n; ++v) {
                    G g2 = g;
                    g2.removeVertexFromEdgeList(v);
                    visit(g2, h.str() + " g.removeVertexFromEdgeList(" + std::to_string(v) + ");");
                }
                G g3 = g;
                g3.clearEdges();
                visit(g3, h.str() + " g.clearEdges();");
            }
            size_t k = 0;
            while (k < cnt.size() && cnt[k] == maxCopies) cnt[k++] = 0;
            if (k == cnt.size()) break;
            cnt[k]++;
        }
    }
}

// the input being replayed, printed if the real code crashes on it
static char bg_last_input[1024];
#include <csignal>
#include <unistd.h>
static void bg_on_crash(int sig) {
    const char *m = "CRASH OF THE REAL CODE (signal) on input: ";
    (void)!write(1, m, strlen(m));
    (void)!write(1, bg_last_input, strlen(bg_last_input));
    (void)!write(1, "\n", 1);
    _exit(3);
}
static void bg_install_handlers() {
    signal(SIGSEGV, bg_on_crash);
    signal(SIGABRT, bg_on_crash);
    signal(SIGBUS, bg_on_crash);
    signal(SIGFPE, bg_on_crash);
}

#define BG_CATCH_ALL                                                          \
    catch (std::out_of_range &) { bg_exc = BG_OUT_OF_RANGE; }                 \
    catch (std::invalid_argument &) { bg_exc = BG_INVALID_ARGUMENT; }         \
    catch (std::runtime_error &) { bg_exc = BG_RUNTIME_ERROR; }               \
    catch (std::exception &) { bg_exc = BG_OTHER_STD; }
