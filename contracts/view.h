/* View macros for contracts (DESIGN §4.7).  Every observer of the abstract
 * state takes a wrapper F so that the same text serves the post-state (ID),
 * the pre-state of a function (OLD) and the entry state of a loop (ENTRY):
 * __CPROVER_old / __CPROVER_loop_entry accept plain lvalues only, so `?:`
 * stays outside the wrapper. */
#ifndef BG_VIEW_H
#define BG_VIEW_H

#define ID(x) (x)
#define OLD(x) __CPROVER_old(x)
#define ENTRY(x) __CPROVER_loop_entry(x)

#define BG_UMAX 0xFFFFFFFFul /* B-SIZE: vertex count fits VertexIndex */

#define BG_SCRATCH_(L) bg_scratch_row, bg_scratch_val_##L, bg_cur_adj, bg_ghost_lookup, bg_ghost_frontier

/* ---- class counters ---- */
#define C_LEN_(c, F) F((c).len)
#define C_SAME_(c, F)                                                         \
  ((c).len == F((c).len) && (c).nP == F((c).nP) && (c).nQ == F((c).nQ) &&     \
   (c).up == F((c).up))
#define ROW_SAME_(r, F)                                                       \
  (C_SAME_((r).c, F) && (r).bound == F((r).bound) && (r).idx == F((r).idx))
#define ROW_SAME(r) ROW_SAME_(r, OLD)

/* ---- adjacency vector ---- */
#define A_CNT_PQ_(a, F) (G_P == G_Q ? F((a).rowP->c.nP) : F((a).rowP->c.nQ))
#define A_CNT_QP_(a, F) (G_P == G_Q ? F((a).rowP->c.nP) : F((a).rowQ->c.nP))
#define A_CNT_PP_(a, F) F((a).rowP->c.nP)
#define A_CNT_QQ_(a, F) (G_P == G_Q ? F((a).rowP->c.nP) : F((a).rowQ->c.nQ))
#define A_LENP_(a, F) C_LEN_((a).rowP->c, F)
#define A_LENQ_(a, F)                                                         \
  (G_P == G_Q ? C_LEN_((a).rowP->c, F) : C_LEN_((a).rowQ->c, F))
#define A_TOTAL_(a, F) F((a).r.total)
#define A_REST_SAME_(a, F)                                                    \
  ((a).r.total == F((a).r.total) && (a).r.totalUp == F((a).r.totalUp) &&      \
   (a).r.restLen == F((a).r.restLen) && (a).r.restUp == F((a).r.restUp) &&    \
   (a).r.restInQ == F((a).r.restInQ) && (a).r.restInP == F((a).r.restInP))
#define A_SAME_BUT_N_(a, F)                                                   \
  (ROW_SAME_(*(a).rowP, F) && ROW_SAME_(*(a).rowQ, F) && A_REST_SAME_(a, F) &&   \
   (a).r.restBound == F((a).r.restBound))
#define A_SAME_(a, F) (A_SAME_BUT_N_(a, F) && (a).n == F((a).n))

/* ---- label map ---- */
#define LEQ_VLabel(a, b) ((a).v == (b).v)
#define LEQ_NoLabel(a, b) 1
#define LEQ_uint(a, b) ((a) == (b))
#define LEQ_real(a, b) ((a) == (b))
#define LNUM_VLabel(v) ((bg_size)0)
#define LNUM_NoLabel(v) ((bg_size)0)
#define LNUM_uint(v) ((bg_size)(v))
#define LNUM_real(v) ((bg_size)(v))
#define M_SAME_X(m, F, EQ)                                                    \
  ((m).s.hasPQ == F((m).s.hasPQ) && (m).s.hasQP == F((m).s.hasQP) &&                  \
   EQ(*(m).valPQ, F(*(m).valPQ)) && EQ(*(m).valQP, F(*(m).valQP)) &&          \
   (m).s.restCount == F((m).s.restCount) && (m).s.restSum == F((m).s.restSum))
#define M_SAME_VLabel(m, F) M_SAME_X(m, F, LEQ_VLabel)
#define M_SAME_NoLabel(m, F) M_SAME_X(m, F, LEQ_NoLabel)
#define M_SAME_uint(m, F) M_SAME_X(m, F, LEQ_uint)
#define M_SAME_real(m, F) M_SAME_X(m, F, LEQ_real)
/* cell (G_P,G_Q) / (G_Q,G_P) unchanged */
#define M_PQ_SAME_X(m, F, EQ)                                                 \
  ((m).s.hasPQ == F((m).s.hasPQ) && EQ(*(m).valPQ, F(*(m).valPQ)))
#define M_QP_SAME_X(m, F, EQ)                                                 \
  ((m).s.hasQP == F((m).s.hasQP) && EQ(*(m).valQP, F(*(m).valQP)))

/* ================= directed graph LDG_<L> ================= */
#define D_CNT_PQ_(g, F) A_CNT_PQ_((g)->adjacencyList, F)
#define D_CNT_QP_(g, F) A_CNT_QP_((g)->adjacencyList, F)
#define D_CNT_PQ(g) D_CNT_PQ_(g, ID)
#define D_CNT_QP(g) D_CNT_QP_(g, ID)
#define D_LENP_(g, F) A_LENP_((g)->adjacencyList, F)
#define D_LENQ_(g, F) A_LENQ_((g)->adjacencyList, F)
#define D_TOTAL_(g, F) A_TOTAL_((g)->adjacencyList, F)
#define D_IS_PQ(s, d) ((s) == G_P && (d) == G_Q)
#define D_IS_QP(s, d) ((s) == G_Q && (d) == G_P)

/* memory-safety structure every proof rests on */
#define D_WF_SAFE(g)                                                          \
  (BG_ADJ_WF((g)->adjacencyList) && (g)->adjacencyList.n == (g)->size &&      \
   (g)->size <= BG_UMAX && (g)->adjacencyList.r.restBound <= (g)->size &&           \
   (g)->adjacencyList.rowP->bound <= (g)->size &&                             \
   (g)->adjacencyList.rowQ->bound <= (g)->size &&                             \
   (g)->edgeLabels.s.restCount < BG_CAP)
/* the cached edge count tracks the lists */
#define D_WF_COUNT(g) ((g)->edgeNumber == D_TOTAL_(g, ID))
#define D_WF_STRUCT(g) (D_WF_SAFE(g) && D_WF_COUNT(g))
/* C03: a label entry exists exactly as long as its edge */
#define D_WF_LABELLED(g)                                                      \
  ((g)->edgeLabels.s.hasPQ == (D_CNT_PQ(g) > 0) &&                              \
   (g)->edgeLabels.s.hasQP == (G_P != G_Q && D_CNT_QP(g) > 0))
#define D_WF_UNLABELLED(g)                                                    \
  (!(g)->edgeLabels.s.hasPQ && !(g)->edgeLabels.s.hasQP &&                        \
   (g)->edgeLabels.s.restCount == 0)
#define D_WF_LABELLED_OLD(g)                                                  \
  (OLD((g)->edgeLabels.s.hasPQ) == (D_CNT_PQ_(g, OLD) > 0) &&                 \
   OLD((g)->edgeLabels.s.hasQP) == (G_P != G_Q && D_CNT_QP_(g, OLD) > 0))
#define D_WF_LABELS_VLabel_OLD(g) D_WF_LABELLED_OLD(g)
#define D_WF_LABELS_uint_OLD(g) D_WF_LABELLED_OLD(g)
#define D_WF_LABELS_real_OLD(g) D_WF_LABELLED_OLD(g)
#define D_WF_LABELS_VLabel(g) D_WF_LABELLED(g)
#define D_WF_LABELS_uint(g) D_WF_LABELLED(g)
#define D_WF_LABELS_real(g) D_WF_LABELLED(g)
#define D_WF_LABELS_NoLabel(g) D_WF_UNLABELLED(g)
#define D_SIMPLE_(g, F) (D_CNT_PQ_(g, F) <= 1 && D_CNT_QP_(g, F) <= 1)
#define D_SIMPLE(g) D_SIMPLE_(g, ID)

#define D_SAME_X(g, F, MS)                                                    \
  (A_SAME_((g)->adjacencyList, F) && (g)->size == F((g)->size) &&             \
   (g)->edgeNumber == F((g)->edgeNumber) && MS((g)->edgeLabels, F))
#define D_SAME_VLabel(g) D_SAME_X(g, OLD, M_SAME_VLabel)
#define D_SAME_NoLabel(g) D_SAME_X(g, OLD, M_SAME_NoLabel)
#define D_SAME_uint(g) D_SAME_X(g, OLD, M_SAME_uint)
#define D_SAME_real(g) D_SAME_X(g, OLD, M_SAME_real)

/* structural precondition of every member function; the label clause
   D_WF_LABELS_<L> is a separate, tagged requires (it belongs to C03 & co.) */
#define D_PRE(g)                                                              \
  (__CPROVER_is_fresh(g, sizeof(*(g))) && BG_ADJ_FRESH((g)->adjacencyList) && \
   BG_MAP_FRESH((g)->edgeLabels) && D_WF_SAFE(g) &&                           \
   bg_exc == BG_EXC_NONE && BG_SCRATCH_CLEAN)
/* frame of a mutating member function: every ghost field, never the pointers */
/* graph-const functions: the caller's ghost frontier may stay attached */
#define D_PRE_C(g)                                                            \
  (__CPROVER_is_fresh(g, sizeof(*(g))) && BG_ADJ_FRESH((g)->adjacencyList) && \
   BG_MAP_FRESH((g)->edgeLabels) && D_WF_SAFE(g) &&                           \
   bg_exc == BG_EXC_NONE && BG_SCRATCH_CLEAN_NF)
#define D_FRAME(g, L)                                                         \
  (g)->size, (g)->edgeNumber, (g)->adjacencyList.n, (g)->adjacencyList.r,     \
      (g)->edgeLabels.s, *(g)->adjacencyList.rowP, *(g)->adjacencyList.rowQ,  \
      *(g)->edgeLabels.valPQ, *(g)->edgeLabels.valQP, bg_exc, BG_SCRATCH_(L)
/* graph-const functions leave the caller's ghost frontier alone */
#define BG_SCRATCH_NF_(L) bg_scratch_row, bg_scratch_val_##L, bg_cur_adj, bg_ghost_lookup
#define D_FRAME_CONST(L) bg_exc, BG_SCRATCH_NF_(L)

#define BG_VAL_CLEAN(L) (!bg_scratch_val_##L.valid && !bg_scratch_val_##L.out)
#define BG_LIFT_ENF(c) (c)
#define BG_LIFT_REP(c) 1

/* ================= undirected graph LUG_<L> (base subobject is an LDG_<L>) ================= */
#define U_B(g) (&(g)->base)
#define U_IS_PAIR(a, b) (((a) == G_P && (b) == G_Q) || ((a) == G_Q && (b) == G_P))
/* copies of the unordered pair {G_P,G_Q} as stored under its canonical orientation (min,max) */
#define U_CNT_(g, F) (G_P <= G_Q ? D_CNT_PQ_(U_B(g), F) : D_CNT_QP_(U_B(g), F))
#define U_CNT(g) U_CNT_(g, ID)
#define U_WF_SAFE(g) D_WF_SAFE(U_B(g))
/* each non-loop edge is two half-edges; the cached count tracks the upper halves */
#define U_WF_COUNT(g) (U_B(g)->edgeNumber == U_B(g)->adjacencyList.r.totalUp)
#define U_WF_SYM_(g, F) (G_P == G_Q || D_CNT_PQ_(U_B(g), F) == D_CNT_QP_(U_B(g), F))
#define U_WF_SYM(g) U_WF_SYM_(g, ID)
/* the label of {i,j} lives under (min,max) */
#define U_HAS_(g, F) (G_P <= G_Q ? F(U_B(g)->edgeLabels.s.hasPQ) : F(U_B(g)->edgeLabels.s.hasQP))
#define U_HAS(g) U_HAS_(g, ID)
#define U_VAL(g) (*(G_P <= G_Q ? U_B(g)->edgeLabels.valPQ : U_B(g)->edgeLabels.valQP))
#define U_WF_LABELLED(g)                                                      \
  (G_P <= G_Q ? (U_B(g)->edgeLabels.s.hasPQ == (D_CNT_PQ(U_B(g)) > 0) && !U_B(g)->edgeLabels.s.hasQP) \
              : (U_B(g)->edgeLabels.s.hasQP == (D_CNT_QP(U_B(g)) > 0) && !U_B(g)->edgeLabels.s.hasPQ))
#define U_WF_LABELS_VLabel(g) U_WF_LABELLED(g)
#define U_WF_LABELS_uint(g) U_WF_LABELLED(g)
#define U_WF_LABELS_real(g) U_WF_LABELLED(g)
#define U_WF_LABELS_NoLabel(g) D_WF_UNLABELLED(U_B(g))
#define U_SIMPLE_(g, F) D_SIMPLE_(U_B(g), F)
#define U_PRE(g)                                                              \
  (__CPROVER_is_fresh(g, sizeof(*(g))) && BG_ADJ_FRESH(U_B(g)->adjacencyList) && \
   BG_MAP_FRESH(U_B(g)->edgeLabels) && U_WF_SAFE(g) && bg_exc == BG_EXC_NONE && \
   BG_SCRATCH_CLEAN)
#define U_PRE_C(g)                                                            \
  (__CPROVER_is_fresh(g, sizeof(*(g))) && BG_ADJ_FRESH(U_B(g)->adjacencyList) && \
   BG_MAP_FRESH(U_B(g)->edgeLabels) && U_WF_SAFE(g) && bg_exc == BG_EXC_NONE && \
   BG_SCRATCH_CLEAN_NF)
#define U_FRAME(g, L) D_FRAME(U_B(g), L)
#define U_SAME_VLabel(g) D_SAME_VLabel(U_B(g))
#define U_SAME_NoLabel(g) D_SAME_NoLabel(U_B(g))
#define U_SAME_uint(g) D_SAME_uint(U_B(g))
#define U_SAME_real(g) D_SAME_real(U_B(g))
/* self-loop copies at G_P / G_Q */
#define U_LOOPS_P_(g, F) F(U_B(g)->adjacencyList.rowP->c.nP)
#define U_LOOPS_Q_(g, F) (G_P == G_Q ? F(U_B(g)->adjacencyList.rowP->c.nP) : F(U_B(g)->adjacencyList.rowQ->c.nQ))

/* ================= multigraphs / weighted graphs: base object + running total ================= */
/* ghost: sum of all stored label values (valid when no value cell is checked out) */
#define M_SUM_(m, F)                                                          \
  ((F((m).s.hasPQ) ? (bg_size)F(*(m).valPQ) : (bg_size)0) +                    \
   (F((m).s.hasQP) ? (bg_size)F(*(m).valQP) : (bg_size)0) + F((m).s.restSum))
#define M_SUM(m) M_SUM_(m, ID)
#define M_VAL_PQ_(m, F) (F((m).s.hasPQ) ? (bg_size)F(*(m).valPQ) : (bg_size)0)
#define M_VAL_QP_(m, F) (F((m).s.hasQP) ? (bg_size)F(*(m).valQP) : (bg_size)0)
#define M_POS(m) ((!(m).s.hasPQ || *(m).valPQ >= 1) && (!(m).s.hasQP || *(m).valQP >= 1))
#define M_RANGE(m) 1
/* A-REAL ranges: weights below 2^40, totals below 2^60 in magnitude (exact machine arithmetic) */
#define W_RANGE(w) 1
#define W_TOTAL_RANGE(t) 1
#define W_CELLS_RANGE(m) 1
/* DM / DW : struct { struct LDG_<L> base; total } */
#define X_B(g) (&(g)->base)
#define X_PRE_D(g)                                                            \
  (__CPROVER_is_fresh(g, sizeof(*(g))) && BG_ADJ_FRESH(X_B(g)->adjacencyList) && \
   BG_MAP_FRESH(X_B(g)->edgeLabels) && D_WF_SAFE(X_B(g)) && M_RANGE(X_B(g)->edgeLabels) && \
   bg_exc == BG_EXC_NONE && BG_SCRATCH_CLEAN)
/* UM / UW : struct { struct LUG_<L> base; total } */
#define Y_B(g) (&(g)->base.base)
#define Y_PRE_U(g)                                                            \
  (__CPROVER_is_fresh(g, sizeof(*(g))) && BG_ADJ_FRESH(Y_B(g)->adjacencyList) && \
   BG_MAP_FRESH(Y_B(g)->edgeLabels) && D_WF_SAFE(Y_B(g)) && M_RANGE(Y_B(g)->edgeLabels) && \
   bg_exc == BG_EXC_NONE && BG_SCRATCH_CLEAN)

/* multiplicity / weight stored for the unordered pair {G_P,G_Q} */
#define U_MVAL_(m, F) (G_P <= G_Q ? M_VAL_PQ_(m, F) : M_VAL_QP_(m, F))
#define U_TOUCHES(v) (G_P == (v) || G_Q == (v))
/* fresh pointer parameters of an outlined loop over a graph */
#define U_LOOP_FRESH(g)                                                       \
  (__CPROVER_is_fresh(g, sizeof(*(g))) && BG_ADJ_FRESH(U_B(g)->adjacencyList) && \
   BG_MAP_FRESH(U_B(g)->edgeLabels))
#define U_LOOP_FRAME(g, L)                                                    \
  U_B(g)->edgeNumber, U_B(g)->adjacencyList.r, U_B(g)->edgeLabels.s,          \
      *U_B(g)->adjacencyList.rowP, *U_B(g)->adjacencyList.rowQ, bg_exc, BG_SCRATCH_(L)

/* the row object a vertex index designates: observed row or the scratch cell */
#define D_ROW(g, i)                                                           \
  ((bg_size)(i) == G_P   ? (g)->adjacencyList.rowP                            \
   : (bg_size)(i) == G_Q ? (g)->adjacencyList.rowQ                            \
                         : &bg_scratch_row.row)
/* the scratch cell holds row i of g, obtained through non-const access */
#define D_ROW_LOADED(g, i)                                                    \
  (D_SCRATCH_BENIGN(g) &&                                                     \
   (((bg_size)(i) == G_P || (bg_size)(i) == G_Q) ||                           \
    (bg_scratch_row.valid && bg_scratch_row.owner == &(g)->adjacencyList &&   \
     bg_scratch_row.row.idx == (bg_size)(i))))
/* the scratch cell is empty or holds a well-formed unobserved row of g */
#define D_SCRATCH_BENIGN(g)                                                   \
  (!bg_scratch_row.valid ||                                                   \
   (bg_scratch_row.from == &(g)->adjacencyList &&                             \
    (bg_scratch_row.owner == 0 || bg_scratch_row.owner == &(g)->adjacencyList) && \
    bg_scratch_row.row.idx != (bg_size)G_P && bg_scratch_row.row.idx != (bg_size)G_Q && \
    bg_scratch_row.row.idx < (g)->adjacencyList.n &&                          \
    bg_scratch_row.row.bound <= (g)->size &&                                  \
    BG_LIST_WF(bg_scratch_row.row) &&                                         \
    bg_scratch_row.row.c.len <= (g)->adjacencyList.r.restLen &&               \
    bg_scratch_row.row.c.up <= (g)->adjacencyList.r.restUp))
/* a second graph argument */
#define D_FRESH_WF(g)                                                         \
  (__CPROVER_is_fresh(g, sizeof(*(g))) && BG_ADJ_FRESH((g)->adjacencyList) && \
   BG_MAP_FRESH((g)->edgeLabels) && D_WF_SAFE(g))
/* observed label cells of two graphs agree */
#define M_AGREE_X(a, b, EQ)                                                   \
  ((a).s.hasPQ == (b).s.hasPQ && (a).s.hasQP == (b).s.hasQP &&                \
   (!(a).s.hasPQ || EQ(*(a).valPQ, *(b).valPQ)) &&                            \
   (!(a).s.hasQP || EQ(*(a).valQP, *(b).valQP)))
/* row i of g through const access */
#define D_ROW_C(g, i)                                                         \
  ((bg_size)(i) == G_P   ? (const bg_list *)(g)->adjacencyList.rowP           \
   : (bg_size)(i) == G_Q ? (const bg_list *)(g)->adjacencyList.rowQ           \
                         : (const bg_list *)&bg_scratch_row.row)
#define D_ROW_LOADED_C(g, i)                                                  \
  (D_SCRATCH_BENIGN(g) &&                                                     \
   (((bg_size)(i) == G_P || (bg_size)(i) == G_Q) ||                           \
    (bg_scratch_row.valid && bg_scratch_row.row.idx == (bg_size)(i))))
/* ================= edge iterators (C08) ================= */
/* it: an lvalue of struct L*G_<L>_Edges_EIt; g = the directed base object it walks */
#define EIT_END_OF(g) ((g)->size == 0 ? (VertexIndex)0 : (VertexIndex)((g)->size - 1))
#define EIT_ROW(it, g) D_ROW_C(g, (it).vertex)
/* a valid position: vertex in range; the cursor walks the row of that vertex; for an observed row the
   entries passed plus the entries ahead are exactly the row (empty graph: the only position is
   (0, value-initialised cursor)) */
#define IT_SPLIT_OF(it_, c_)                                                  \
  ((it_).p.len + (it_).r.len == (c_).len && (it_).p.nP + (it_).r.nP == (c_).nP && \
   (it_).p.nQ + (it_).r.nQ == (c_).nQ && (it_).p.up + (it_).r.up == (c_).up)
#define IT_P_AX(it_)                                                          \
  ((it_).p.len < BG_CAP && (it_).r.len < BG_CAP && (it_).p.len + (it_).r.len < BG_CAP && (it_).p.nP <= (it_).p.len && (it_).p.nQ <= (it_).p.len && \
   (it_).p.up <= (it_).p.len && (G_P != G_Q || (it_).p.nQ == 0))
#define EIT_OK(it, g)                                                         \
  ((it).endVertex == EIT_END_OF(g) && (it).vertex <= (it).endVertex &&        \
   ((g)->size == 0                                                            \
        ? ((it).neighbour.r.len == 0 && (it).neighbour.r.up == 0 && (it).neighbour.r.nP == 0 && (it).neighbour.r.nQ == 0 && !(it).neighbour.poisoned && (it).neighbour.idx == BG_IT_SINGULAR_IDX && (it).neighbour.p.len == 0 && (it).neighbour.p.up == 0) \
        : (!(it).neighbour.poisoned && (it).neighbour.idx == (bg_size)(it).vertex && \
           (it).neighbour.bound <= (g)->size && BG_CNT_AX((it).neighbour.r, (it).neighbour.idx) && \
           IT_P_AX((it).neighbour) && BG_IT_CUR_OK((it).neighbour) && \
           ((bg_size)(it).vertex != G_P || IT_SPLIT_OF((it).neighbour, (g)->adjacencyList.rowP->c)) && \
           ((bg_size)(it).vertex != G_Q || G_P == G_Q || IT_SPLIT_OF((it).neighbour, (g)->adjacencyList.rowQ->c)))))
#define EIT_ATTACHED(g) (bg_ghost_frontier.a == &(g)->adjacencyList)
/* the frontier follows this iterator; rank counts the positions before it */
#define EIT_TRACKED(it, g)                                                    \
  (bg_ghost_frontier.a == &(g)->adjacencyList &&                              \
   ((g)->size == 0 ? (bg_ghost_frontier.F == 0 && bg_ghost_frontier.rank == 0 && bg_ghost_frontier.below == 0 && bg_ghost_frontier.rankQ == 0 && bg_ghost_frontier.belowInQ == 0) \
                   : (bg_ghost_frontier.F == (bg_size)(it).vertex &&          \
                      bg_ghost_frontier.rank == bg_ghost_frontier.below + (it).neighbour.p.len && \
                      bg_ghost_frontier.rankQ == bg_ghost_frontier.belowInQ + C_NQ((it).neighbour.p))))
/* copies of G_Q counted by a counter set */
#define C_NQ(c) (G_P == G_Q ? (c).nP : (c).nQ)
#define EIT_SAME(a, b)                                                        \
  ((a).vertex == (b).vertex && (a).endVertex == (b).endVertex && (a).graph == (b).graph && \
   (a).neighbour.r.len == (b).neighbour.r.len && (a).neighbour.r.nP == (b).neighbour.r.nP && \
   (a).neighbour.r.nQ == (b).neighbour.r.nQ && (a).neighbour.r.up == (b).neighbour.r.up && \
   (a).neighbour.cur == (b).neighbour.cur && (a).neighbour.idx == (b).neighbour.idx && \
   (a).neighbour.bound == (b).neighbour.bound && (a).neighbour.poisoned == (b).neighbour.poisoned)
/* label cell of the pair (G_Q,G_P) (the PQ cell on the diagonal) */
#define M_CELL_PQ(m) (*(m).valPQ)
#define M_CELL_QP(m) (*(G_P == G_Q ? (m).valPQ : (m).valQP))
#define M_HAS_PQ(m) ((m).s.hasPQ)
#define M_HAS_QP(m) (G_P == G_Q ? (m).s.hasPQ : (m).s.hasQP)
/* the label of the undirected pair in u is the label of one of the directed edges between them in d */
#define U_LABEL_FROM_X(u, d, EQ)                                              \
  ((M_HAS_PQ((d)->edgeLabels) && EQ(U_VAL(u), M_CELL_PQ((d)->edgeLabels))) || \
   (M_HAS_QP((d)->edgeLabels) && EQ(U_VAL(u), M_CELL_QP((d)->edgeLabels))))
/* a by-value cursor walking row i_ of the (unchanged) graph d */
#define IT_WALKS(it_, d, i_)                                                  \
  (!(it_).poisoned && (it_).idx == (bg_size)(i_) && (it_).bound <= (d)->size && BG_CNT_AX((it_).r, (it_).idx) && \
   IT_P_AX(it_) && BG_IT_CUR_OK(it_) &&                                       \
   ((bg_size)(i_) != G_P || IT_SPLIT_OF(it_, (d)->adjacencyList.rowP->c)) &&  \
   ((bg_size)(i_) != G_Q || G_P == G_Q || IT_SPLIT_OF(it_, (d)->adjacencyList.rowQ->c)))
/* copies of (G_P,G_Q) / (G_Q,G_P) of d among the entries such a cursor has passed */
#define IT_PASSED_PQ(it_, i_) ((bg_size)(i_) == (bg_size)G_P ? C_NQ((it_).p) : (bg_size)0)
#define IT_PASSED_QP(it_, i_) ((bg_size)(i_) == (bg_size)G_Q ? (it_).p.nP : (bg_size)0)
#define WMAT_PQ_(m, F) (G_P == G_Q ? F((m).rowP.vP) : F((m).rowP.vQ))
#define WMAT_QP_(m, F) (G_P == G_Q ? F((m).rowP.vP) : F((m).rowQ.vP))
#define WMAT_PQ(m) WMAT_PQ_(m, ID)
#define WMAT_QP(m) WMAT_QP_(m, ID)
/* x counted once, or twice on the diagonal when self-loops count twice */
#define U_TWICE(x, twice) ((G_P == G_Q && (twice)) ? (x) + (x) : (x))
/* ================= binary edge lists (C14, C15) ================= */
#define BSWAP32(v) ((((v) & 0xffu) << 24) | (((v) & 0xff00u) << 8) | (((v) >> 8) & 0xff00u) | (((v) >> 24) & 0xffu))
/* the four bytes b[0..3] are the little-endian encoding of v */
#define LE32_IS(b, v)                                                         \
  ((b)[0] == (unsigned char)((v) & 0xffu) && (b)[1] == (unsigned char)(((v) >> 8) & 0xffu) && \
   (b)[2] == (unsigned char)(((v) >> 16) & 0xffu) && (b)[3] == (unsigned char)(((v) >> 24) & 0xffu))
#define LE32_VAL_(b, F)                                                       \
  ((VertexIndex)F((b)[0]) | ((VertexIndex)F((b)[1]) << 8) | ((VertexIndex)F((b)[2]) << 16) | ((VertexIndex)F((b)[3]) << 24))
#define FILE_SAME_(F)                                                         \
  (bg_file.nPQ == F(bg_file.nPQ) && bg_file.nQP == F(bg_file.nQP) && bg_file.nOther == F(bg_file.nOther) && \
   bg_file.tail == F(bg_file.tail) && bg_file.bytes == F(bg_file.bytes) && bg_file.openable == F(bg_file.openable))
#define REC_IS_PQ(a, b) ((a) == G_P && (b) == G_Q)
#define REC_IS_QP(a, b) (G_P != G_Q && (a) == G_Q && (b) == G_P)
#ifdef BG_STREAM_BYTES
/* byte level: value -> exactly four little-endian bytes, on either machine byte order */
#define WR_PRE(fs) (!(fs)->base.fail)
#define WR_POST(fs, v) ((fs)->lastn == 4 && LE32_IS((fs)->last, v) && bg_file.bytes == OLD(bg_file.bytes) + 4 && !(fs)->base.fail)
#define RD_PRE(fs) 1
#define RD_POST(fs, vp)                                                       \
  ((!OLD((fs)->base.fail) && OLD((fs)->avail) >= 4)                            \
       ? (!(fs)->base.fail && (fs)->avail == OLD((fs)->avail) - 4 && *(vp) == LE32_VAL_((fs)->next, OLD)) \
       : ((fs)->base.fail && (OLD((fs)->base.fail) || (fs)->avail == 0)))
#else
/* record level (little-endian machine model): the effect on the classified record counters */
#define WR_PRE(fs) (BG_FILE_WF(bg_file) && bg_file.bytes <= BG_REC_BYTES * BG_CAP)
#define WR_POST(fs, v)                                                        \
  (OLD((fs)->base.fail)                                                       \
       ? ((fs)->base.fail && FILE_SAME_(OLD) && (fs)->inrec == OLD((fs)->inrec) && (fs)->first == OLD((fs)->first)) \
       : (!(fs)->base.fail && bg_file.bytes == OLD(bg_file.bytes) + 4 && bg_file.openable == OLD(bg_file.openable) && \
          bg_file.otherBound <= ((bg_size)1 << 32) && bg_file.otherBound >= OLD(bg_file.otherBound) && \
          (OLD((fs)->inrec)                                                   \
               ? (!(fs)->inrec && bg_file.tail == 0 &&                        \
                  bg_file.nPQ == OLD(bg_file.nPQ) + (REC_IS_PQ(OLD((fs)->first), v) ? 1 : 0) && \
                  bg_file.nQP == OLD(bg_file.nQP) + (REC_IS_QP(OLD((fs)->first), v) ? 1 : 0) && \
                  bg_file.nOther == OLD(bg_file.nOther) + ((REC_IS_PQ(OLD((fs)->first), v) || REC_IS_QP(OLD((fs)->first), v)) ? 0 : 1)) \
               : ((fs)->inrec && (fs)->first == (v) && bg_file.tail == 4 && bg_file.nPQ == OLD(bg_file.nPQ) && \
                  bg_file.nQP == OLD(bg_file.nQP) && bg_file.nOther == OLD(bg_file.nOther)))))
#define RD_PRE(fs) ((fs)->nPQ < BG_CAP && (fs)->nQP < BG_CAP && (fs)->nOther < BG_CAP && (fs)->tail < BG_REC_BYTES && (G_P != G_Q || (fs)->nQP == 0))
#define RD_SAME_CNT(fs) ((fs)->nPQ == OLD((fs)->nPQ) && (fs)->nQP == OLD((fs)->nQP) && (fs)->nOther == OLD((fs)->nOther))
#define RD_POST(fs, vp)                                                       \
  ((fs)->otherBound == OLD((fs)->otherBound) && (fs)->base.open == OLD((fs)->base.open) && \
   (OLD((fs)->base.fail)                                                      \
        ? ((fs)->base.fail && RD_SAME_CNT(fs) && (fs)->tail == OLD((fs)->tail) && (fs)->inrec == OLD((fs)->inrec)) \
    : OLD((fs)->inrec)                                                        \
        ? (!(fs)->base.fail && !(fs)->inrec && *(vp) == OLD((fs)->second) && RD_SAME_CNT(fs) && (fs)->tail == OLD((fs)->tail)) \
    : (OLD((fs)->nPQ) + OLD((fs)->nQP) + OLD((fs)->nOther) > 0)                 \
        ? (!(fs)->base.fail && (fs)->inrec && (fs)->tail == OLD((fs)->tail) &&  \
           ((REC_IS_PQ(*(vp), (fs)->second) && OLD((fs)->nPQ) > 0 && (fs)->nPQ + 1 == OLD((fs)->nPQ) && (fs)->nQP == OLD((fs)->nQP) && (fs)->nOther == OLD((fs)->nOther)) || \
            (REC_IS_QP(*(vp), (fs)->second) && OLD((fs)->nQP) > 0 && (fs)->nQP + 1 == OLD((fs)->nQP) && (fs)->nPQ == OLD((fs)->nPQ) && (fs)->nOther == OLD((fs)->nOther)) || \
            (!REC_IS_PQ(*(vp), (fs)->second) && !REC_IS_QP(*(vp), (fs)->second) && OLD((fs)->nOther) > 0 && (fs)->nOther + 1 == OLD((fs)->nOther) && \
             (fs)->nPQ == OLD((fs)->nPQ) && (fs)->nQP == OLD((fs)->nQP) && (bg_size)*(vp) < (fs)->otherBound && (bg_size)(fs)->second < (fs)->otherBound))) \
    : (OLD((fs)->tail) >= 4)                                                  \
        ? (!(fs)->base.fail && !(fs)->inrec && (fs)->tail + 4 == OLD((fs)->tail) && RD_SAME_CNT(fs)) \
        : ((fs)->base.fail && !(fs)->inrec && (fs)->tail == 0 && RD_SAME_CNT(fs))))
#endif
/* ================= breadth-first predecessor search (C11 partial, C19) ================= */
#define VU_AT_P(v) ((v).vP)
#define VU_AT_Q(v) (G_P == G_Q ? (v).vP : (v).vQ)
#define VB_AT_P(v) ((v).vP)
#define VB_AT_Q(v) (G_P == G_Q ? (v).vP : (v).vQ)
#define Q_N_Q(q) (G_P == G_Q ? (q).nP : (q).nQ)
#define Q_PUSHED_Q(q) (G_P == G_Q ? (q).pushedP : (q).pushedQ)
/* state of a search over graph g (directed base object) from `src`: vectors sized, bookkeeping consistent */
#define BFS_SAFE(g, dist, pred, done, q)                                      \
  ((dist).n == (g)->size && (pred).n == (g)->size && (done).n == (g)->size && BG_VECB_WF(done) && \
   (q).bound <= (g)->size && (q).nP < BG_CAP && (q).nQ < BG_CAP && (q).nO < BG_CAP && (G_P != G_Q || (q).nQ == 0) && \
   ((q).nP == 0 || (bg_size)G_P < (g)->size) && ((q).nQ == 0 || (bg_size)G_Q < (g)->size) && \
   (!(q).curValid || ((bg_size)(q).cur < (q).bound && (BG_IS_P((q).cur) ? (q).nP : BG_IS_Q((q).cur) ? (q).nQ : (q).nO) > 0)))
/* every vertex is enqueued when, and only when, its flag is raised: pushes == raised flags, pointwise too */
#define BFS_COUNT(g, done, q)                                                 \
  ((q).pushed == (done).nTrue && (q).popped + BG_QUEUE_LEN(q) == (q).pushed && \
   ((bg_size)G_P >= (g)->size || (q).pushedP == (VB_AT_P(done) ? 1 : 0)) &&    \
   ((bg_size)G_Q >= (g)->size || G_P == G_Q || (q).pushedQ == (VB_AT_Q(done) ? 1 : 0)))
/* what is known about the observed vertices */
#define BFS_FACTS(g, src, dist, pred, done, q)                                \
  (((q).nP == 0 || VB_AT_P(done)) && (Q_N_Q(q) == 0 || VB_AT_Q(done)) &&       \
   ((bg_size)G_Q >= (g)->size || VB_AT_Q(done) || (V_AT_Q(dist) == BG_VERTEX_MAX && VU_AT_Q(pred) == (VertexIndex)BG_VERTEX_MAX)) && \
   ((bg_size)G_P >= (g)->size || VB_AT_P(done) || (V_AT_P(dist) == BG_VERTEX_MAX && VU_AT_P(pred) == (VertexIndex)BG_VERTEX_MAX)) && \
   ((src) != G_Q || (VB_AT_Q(done) && V_AT_Q(dist) == 0 && VU_AT_Q(pred) == (VertexIndex)BG_VERTEX_MAX)) && \
   (!((bg_size)G_Q < (g)->size && (src) != G_Q && VB_AT_Q(done)) || (bg_size)VU_AT_Q(pred) < (g)->size) && \
   ((src) != G_P || (VB_AT_P(done) && V_AT_P(dist) == 0 && VU_AT_P(pred) == (VertexIndex)BG_VERTEX_MAX)) && \
   (!((bg_size)G_P < (g)->size && (bg_size)G_Q < (g)->size && G_P != G_Q && (src) != G_Q && VB_AT_Q(done) && VU_AT_Q(pred) == G_P) || \
    (D_CNT_PQ(g) > 0 && VB_AT_P(done) && V_AT_Q(dist) == V_AT_P(dist) + 1)))
/* ---- all-predecessor search: pr is the vector of predecessor lists (a bg_adj of its own) */
#define PR_WF(pr, g)                                                          \
  (BG_ADJ_WF(pr) && (pr).n == (g)->size && (pr).r.restBound <= (g)->size && (pr).rowP->bound <= (g)->size && (pr).rowQ->bound <= (g)->size)
/* the scratch row belongs to the graph (read only) or to the predecessor lists */
#define PR_SCRATCH_BENIGN(pr, g)                                              \
  (!bg_scratch_row.valid || D_SCRATCH_BENIGN(g) ||                            \
   (bg_scratch_row.from == &(pr) && (bg_scratch_row.owner == 0 || bg_scratch_row.owner == &(pr)) && \
    bg_scratch_row.row.idx != (bg_size)G_P && bg_scratch_row.row.idx != (bg_size)G_Q && \
    bg_scratch_row.row.idx < (pr).n && bg_scratch_row.row.bound <= (g)->size && BG_LIST_WF(bg_scratch_row.row) && \
    bg_scratch_row.row.c.len <= (pr).r.restLen && bg_scratch_row.row.c.up <= (pr).r.restUp))
/* copies of G_P in the predecessor list of G_Q, and the length of that list */
#define PR_P_IN_Q(pr) (G_P == G_Q ? (pr).rowP->c.nP : (pr).rowQ->c.nP)
#define PR_LEN_Q(pr) (G_P == G_Q ? (pr).rowP->c.len : (pr).rowQ->c.len)
#define PR_LEN_P(pr) ((pr).rowP->c.len)
#define BFSALL_QUEUE(g, q)                                                    \
  ((q).bound <= (g)->size && (q).nP < BG_CAP && (q).nQ < BG_CAP && (q).nO < BG_CAP && (G_P != G_Q || (q).nQ == 0) && \
   (!(q).curValid || ((bg_size)(q).cur < (q).bound && (BG_IS_P((q).cur) ? (q).nP : BG_IS_Q((q).cur) ? (q).nQ : (q).nO) > 0)) && \
   (q).popped + BG_QUEUE_LEN(q) == (q).pushed)
/* every vertex other than the source is enqueued when its first predecessor is recorded, and only then */
#define BFSALL_ONCE(g, pr, q)                                                 \
  ((q).pushedP == (((bg_size)G_P < (g)->size && (bg_ghost_src == G_P || PR_LEN_P(pr) > 0)) ? 1 : 0) && \
   (q).pushedQ == (((bg_size)G_Q < (g)->size && G_P != G_Q && (bg_ghost_src == G_Q || PR_LEN_Q(pr) > 0)) ? 1 : 0))
#define BFSALL_FACTS(g, dist, pr, done)                                       \
  ((bg_size)bg_ghost_src < (g)->size && (bg_ghost_src != G_P || (PR_LEN_P(pr) == 0 && VB_AT_P(done))) && \
   (bg_ghost_src != G_Q || (PR_LEN_Q(pr) == 0 && VB_AT_Q(done) && V_AT_Q(dist) == 0)) && \
   ((bg_size)G_Q >= (g)->size || bg_ghost_src == G_Q || PR_LEN_Q(pr) > 0 || V_AT_Q(dist) == BG_VERTEX_MAX) && \
   ((bg_size)G_P >= (g)->size || bg_ghost_src == G_P || PR_LEN_P(pr) > 0 || V_AT_P(dist) == BG_VERTEX_MAX) && \
   PR_P_IN_Q(pr) <= 1 && (PR_P_IN_Q(pr) == 0 || ((bg_size)G_P < (g)->size && (bg_size)G_Q < (g)->size && D_CNT_PQ(g) > 0)))
/* ---- list<Edge> walk */
#define ESIT_OK(it, s)                                                        \
  ((it).remPQ <= (s).nPQ && (it).remQP <= (s).nQP && (it).remOther <= (s).nOther && (it).bound == (s).bound && \
   (BG_ESEQ_LEFT(it) == 0 ||                                                  \
    (((it).cur.first == G_P && (it).cur.second == G_Q) ? (it).remPQ > 0       \
     : (G_P != G_Q && (it).cur.first == G_Q && (it).cur.second == G_P) ? (it).remQP > 0 \
     : ((it).remOther > 0 && (bg_size)(it).cur.first < (it).bound && (bg_size)(it).cur.second < (it).bound))))
#define ESEQ_QP(s) (G_P == G_Q ? (s).nPQ : (s).nQP)
#define ESIT_REM_QP(it) (G_P == G_Q ? (it).remPQ : (it).remQP)
/* ---- list<LabeledEdge<VLabel>> walk (in list order) */
#define LESIT_OK(it, s)                                                       \
  ((it).remPQ <= (s).nPQ && (it).remQP <= (s).nQP && (it).remOther <= (s).nOther && (it).bound == (s).bound && \
   (it).nPQ == (s).nPQ && (it).nQP == (s).nQP && (it).firstPQ.v == (s).firstPQ.v && (it).firstQP.v == (s).firstQP.v && \
   (it).pqBeforeQp == (s).pqBeforeQp &&                                        \
   (BG_ESEQ_LEFT(it) == 0 ||                                                  \
    (((it).cur.f0 == G_P && (it).cur.f1 == G_Q) ? ((it).remPQ > 0 && ((it).remPQ < (it).nPQ || (it).cur.f2.v == (s).firstPQ.v) && \
                                                    (G_P == G_Q || (it).remQP < (it).nQP || (it).remPQ < (it).nPQ || (it).nQP == 0 || (s).pqBeforeQp)) \
     : (G_P != G_Q && (it).cur.f0 == G_Q && (it).cur.f1 == G_P) ? ((it).remQP > 0 && ((it).remQP < (it).nQP || (it).cur.f2.v == (s).firstQP.v) && \
                                                    ((it).remQP < (it).nQP || (it).remPQ < (it).nPQ || (it).nPQ == 0 || !(s).pqBeforeQp)) \
     : ((it).remOther > 0 && (bg_size)(it).cur.f0 < (it).bound && (bg_size)(it).cur.f1 < (it).bound))))
/* ---- unordered_set<VertexIndex> S and a walk over it */
#define S_HAS_P(s) ((s).hasP)
#define S_HAS_Q(s) (G_P == G_Q ? (s).hasP : (s).hasQ)
#define S_IN_RANGE(s, n) ((!(s).hasP || (bg_size)G_P < (n)) && (!(s).hasQ || (bg_size)G_Q < (n)) && ((s).restCount == 0 || (s).restBound <= (n)))
#define SIT_OK(it, s)                                                         \
  ((it).walking && (!(it).remP || (s).hasP) && (!(it).remQ || (s).hasQ) && (it).remRest <= (s).restCount && \
   (it).restBound == (s).restBound &&                                         \
   (BG_USET_LEFT(it) == 0 || ((!BG_IS_P((it).cur) || (it).remP) && (!BG_IS_Q((it).cur) || (it).remQ) && \
                              (!BG_IS_O((it).cur) || ((it).remRest > 0 && (bg_size)(it).cur < (it).restBound)))))
/* the observation point has been passed by the walk */
#define SIT_DONE_P(it, s) ((s).hasP && !(it).remP)
#define SIT_DONE_Q(it, s) (G_P == G_Q ? ((s).hasP && !(it).remP) : ((s).hasQ && !(it).remQ))
/* observed entries of vector<size_t> / matrix results */
#define V_AT_P(v) ((v).vP)
#define V_AT_Q(v) (G_P == G_Q ? (v).vP : (v).vQ)
#define MAT_PQ_(m, F) (G_P == G_Q ? F((m).rowP.vP) : F((m).rowP.vQ))
#define MAT_QP_(m, F) (G_P == G_Q ? F((m).rowP.vP) : F((m).rowQ.vP))
#define MAT_PQ(m) (G_P == G_Q ? (m).rowP.vP : (m).rowP.vQ)
#define MAT_QP(m) (G_P == G_Q ? (m).rowP.vP : (m).rowQ.vP)
/* copies of (G_P,G_Q) [resp. (G_Q,G_P)] among the positions the edge iterator has passed */
#define EIT_SEEN_PQ(it, g)                                                    \
  ((bg_size)(it).vertex < (bg_size)G_P ? (bg_size)0 : (bg_size)(it).vertex == (bg_size)G_P ? C_NQ((it).neighbour.p) : D_CNT_PQ(g))
#define EIT_SEEN_QP(it, g)                                                    \
  ((bg_size)(it).vertex < (bg_size)G_Q ? (bg_size)0 : (bg_size)(it).vertex == (bg_size)G_Q ? (it).neighbour.p.nP : D_CNT_QP(g))
/* the same with every leaf wrapped by F (graph-const functions: the rows need no wrapping) */
#define EIT_SEEN_PQ_(it, g, F)                                                \
  ((bg_size)F((it).vertex) < (bg_size)G_P ? (bg_size)0 : (bg_size)F((it).vertex) == (bg_size)G_P ? (G_P == G_Q ? F((it).neighbour.p.nP) : F((it).neighbour.p.nQ)) : D_CNT_PQ(g))
#define EIT_SEEN_QP_(it, g, F)                                                \
  ((bg_size)F((it).vertex) < (bg_size)G_Q ? (bg_size)0 : (bg_size)F((it).vertex) == (bg_size)G_Q ? F((it).neighbour.p.nP) : D_CNT_QP(g))
#define EIT_AT_PQ_(it, F) (F((it).vertex) == G_P && F((it).neighbour.cur) == G_Q)
#define EIT_AT_QP_(it, F) (F((it).vertex) == G_Q && F((it).neighbour.cur) == G_P)
/* ---- undirected edge iterator: g is the LUG object; only entries >= own row index are yielded */
#define U_FRESH_WF(g)                                                         \
  (__CPROVER_is_fresh(g, sizeof(*(g))) && BG_ADJ_FRESH(U_B(g)->adjacencyList) && \
   BG_MAP_FRESH(U_B(g)->edgeLabels) && U_WF_SAFE(g))
/* pointwise form of `the entry under the cursor is not below its row index` */
#define UEIT_UP_OK(it)                                                        \
  ((it).neighbour.r.len == 0 ||                                               \
   (!((bg_size)(it).vertex == (bg_size)G_Q && (it).neighbour.cur == G_P && G_P < G_Q) && \
    !((bg_size)(it).vertex == (bg_size)G_P && (it).neighbour.cur == G_Q && G_Q < G_P)))
#define UEIT_OK(it, g) (EIT_OK(it, U_B(g)) && UEIT_UP_OK(it))
/* the frontier follows this iterator; rank counts the upper entries before it */
#define UEIT_TRACKED(it, g)                                                   \
  (bg_ghost_frontier.a == &U_B(g)->adjacencyList &&                           \
   (U_B(g)->size == 0 ? (bg_ghost_frontier.F == 0 && bg_ghost_frontier.rank == 0 && bg_ghost_frontier.belowUp == 0) \
                      : (bg_ghost_frontier.F == (bg_size)(it).vertex &&       \
                         bg_ghost_frontier.rank == bg_ghost_frontier.belowUp + (it).neighbour.p.up)))
#define UEIT_LOOP(it, e, g)                                                   \
  ((it).graph == (g) && (e).graph == (g) && UEIT_OK(it, g) && BG_SCRATCH_CLEAN_NF && \
   (e).vertex == (e).endVertex && (e).endVertex == EIT_END_OF(U_B(g)) && (e).neighbour.r.len == 0 && \
   !(e).neighbour.poisoned && (e).neighbour.idx == (U_B(g)->size == 0 ? BG_IT_SINGULAR_IDX : (bg_size)(e).vertex))
/* copies of the unordered pair {G_P,G_Q} among the positions the iterator has yielded */
#define UEIT_SEEN(it, g) (G_P <= G_Q ? EIT_SEEN_PQ(it, U_B(g)) : EIT_SEEN_QP(it, U_B(g)))
/* the common part of every edges() loop invariant: position valid, end() fixed */
#define EIT_LOOP(it, e, g)                                                    \
  ((it).graph == (g) && (e).graph == (g) && EIT_OK(it, g) && BG_SCRATCH_CLEAN_NF && \
   (e).vertex == (e).endVertex && (e).endVertex == EIT_END_OF(g) && (e).neighbour.r.len == 0 && \
   !(e).neighbour.poisoned && (e).neighbour.idx == ((g)->size == 0 ? BG_IT_SINGULAR_IDX : (bg_size)(e).vertex))
/* WF without the clean-cache clause */
#define D_WF_LOOP(g) (D_WF_SAFE(g) && bg_cur_adj == &(g)->adjacencyList)
/* cursor j is a valid position of row r */
#define IT_IN_ROW(it_, row_)                                                       \
  (!(it_).poisoned && (it_).idx == (row_).idx && (it_).bound == (row_).bound &&           \
   (it_).r.len <= (row_).c.len && (it_).r.nP <= (row_).c.nP && (it_).r.nQ <= (row_).c.nQ &&  \
   (it_).r.up <= (row_).c.up && BG_CNT_AX((it_).r, (it_).idx) &&              \
   BG_IT_CUR_OK(it_))
#define IT_AT_BEGIN(it_, row_)                                                     \
  (!(it_).poisoned && (it_).idx == (row_).idx && (it_).bound == (row_).bound &&           \
   (it_).r.len == (row_).c.len && (it_).r.nP == (row_).c.nP && (it_).r.nQ == (row_).c.nQ &&  \
   (it_).r.up == (row_).c.up && BG_IT_CUR_OK(it_))
#endif
