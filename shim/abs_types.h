/* Types, ghost globals and predicates of the abstract container shim
 * (DESIGN.md section 4).  Plain declarations only: included by shim/abstract.h
 * (CBMC) and by the native replay driver (C++), so that a contract clause is
 * evaluated over the same structures in both worlds. */
#ifndef BG_ABS_TYPES_H
#define BG_ABS_TYPES_H
#define BG_CAT_(a, b) a##b
#define BG_CAT(a, b) BG_CAT_(a, b)
#ifndef BG_L
#define BG_L NoLabel
#endif
typedef unsigned int VertexIndex;
typedef unsigned long bg_size;
#ifdef __cplusplus
typedef bool bg_bool;
#else
typedef _Bool bg_bool;
#endif
#define BG_CAP ((bg_size)1 << 40) /* B-LEN: no list longer than 2^40 */
enum {
  BG_EXC_NONE = 0,
  BG_OUT_OF_RANGE = 1,
  BG_INVALID_ARGUMENT = 2,
  BG_RUNTIME_ERROR = 3,
  BG_OTHER_STD = 4
};
extern int bg_exc;
extern VertexIndex G_P, G_Q;
bg_size nondet_bg_size(void);
VertexIndex nondet_vertex(void);
bg_bool nondet_bg_bool(void);
int nondet_int(void);
double nondet_double(void);
long nondet_long(void);
struct bg_adj *nondet_adjp(void);
#define BG_PRE(c, msg) __CPROVER_assert((c), "STL-PRE " msg)
#define BG_ASSUME(c) __CPROVER_assume(c)
typedef struct { int v; } VLabel;         /* opaque user label (A-PARAM)      */
typedef struct { char unused; } NoLabel;  /* BaseGraph::NoLabel               */
typedef unsigned int EdgeMultiplicity;
/* A-REAL: EdgeWeight / long double as elements of the ring Z/2^64: the library only adds,
   subtracts, multiplies and compares weights for equality in the classes under contract, and
   floating point arithmetic has no undefined overflow to check */
typedef unsigned long bg_real;
typedef struct { VertexIndex first, second; } bg_edge; /* std::pair<VI,VI> */
typedef struct {
  bg_size len; /* list::size()                                   */
  bg_size nP;  /* entries equal to G_P                           */
  bg_size nQ;  /* entries equal to G_Q (0 when G_P == G_Q)       */
  bg_size up;  /* entries >= idx   (half-edges an undirected graph counts) */
} bg_cnt;
typedef struct bg_list {
  bg_cnt c;
  bg_size idx;    /* row index this list sits at (0 for free-standing lists) */
  bg_size bound;  /* every entry is < bound                                 */
} bg_list;
#define BG_UP_P(i) ((bg_size)G_P >= (i))
#define BG_UP_Q(i) ((bg_size)G_Q >= (i))
#define BG_UPPQ(c, i) ((BG_UP_P(i) ? (c).nP : 0) + (BG_UP_Q(i) ? (c).nQ : 0))
#define BG_CNT_AX(c, i)                                                       \
  ((c).len < BG_CAP && (c).nP <= (c).len && (c).nQ <= (c).len &&              \
   (c).up <= (c).len && (G_P != G_Q || (c).nQ == 0))
#define BG_CNT_AX_SUM(c, i)                                                   \
  ((c).nP + (c).nQ <= (c).len && BG_UPPQ(c, i) <= (c).up &&                   \
   (c).len - ((c).nP + (c).nQ) >= (c).up - BG_UPPQ(c, i))
#define BG_LIST_WF(l)                                                         \
  (BG_CNT_AX((l).c, (l).idx) && ((l).c.nP == 0 || G_P < (l).bound) &&         \
   ((l).c.nQ == 0 || G_Q < (l).bound) && (l).bound <= ((bg_size)1 << 32))
#define BG_LEN(c) ((c).len)
struct bg_adj;
typedef struct {
  bg_list row;
  bg_bool valid;
  struct bg_adj *owner;      /* non-null iff obtained through non-const access */
  const struct bg_adj *from; /* vector the row was read from      */
} bg_scratch_row_t;
extern bg_scratch_row_t bg_scratch_row;
#define BG_IS_P(x) ((x) == G_P)
#define BG_IS_Q(x) ((x) != G_P && (x) == G_Q)
#define BG_IS_O(x) ((x) != G_P && (x) != G_Q)
typedef struct bg_it {
  bg_cnt r;   /* suffix: entries from the cursor to end()                        */
  bg_cnt p;   /* ghost: entries passed by ++ since begin() (const traversals)   */
  VertexIndex cur;
  bg_size idx;
  bg_size bound;
  bg_bool poisoned;
} bg_it;
#define BG_REM(it) ((it).r.len)
#define BG_ROW_CHECK(l)                                                       \
  __CPROVER_assert((l) != &bg_scratch_row.row || bg_scratch_row.valid,        \
                   "ABSTRACTION stale reference to an unobserved row")
#define BG_ROW_CHECK_MUT(l)                                                   \
  __CPROVER_assert((l) != &bg_scratch_row.row ||                              \
                       (bg_scratch_row.valid && bg_scratch_row.owner != 0),   \
                   "ABSTRACTION mutation of a row obtained through const access")
extern struct bg_adj *bg_cur_adj;
#define BG_IT_CUR_OK(it)                                                      \
  ((it).r.len == 0 ||                                                         \
   ((bg_size)(it).cur < (it).bound && (!BG_IS_P((it).cur) || (it).r.nP > 0) && \
    (!BG_IS_Q((it).cur) || (it).r.nQ > 0) &&                                  \
    (!((bg_size)(it).cur >= (it).idx) || (it).r.up > 0) &&                    \
    (!((bg_size)(it).cur < (it).idx) || (it).r.len > (it).r.up) &&            \
    (it).r.nP + (it).r.nQ <= (it).r.len &&                                    \
    (!BG_IS_O((it).cur) || (it).r.len > (it).r.nP + (it).r.nQ)))
typedef struct bg_adj {
  bg_size n;            /* vector::size()                                     */
  /* rows G_P and G_Q (rowQ empty when G_P == G_Q).  Separate objects, not
     members: a pointer that may designate two members of ONE object makes
     CBMC fall back to byte-level access of the whole graph (measured: 10x
     formula size); pointers to distinct objects are case-split cheaply. */
  bg_list *rowP, *rowQ;
  /* ghost sums over all rows other than G_P, G_Q */
  struct bg_rest {      /* (one assigns target; the row pointers are never assigned) */
    bg_size total;      /* STORED sum of len over ALL rows (see bg_cnt)       */
    bg_size totalUp;    /* STORED sum of up over ALL rows                     */
    bg_size restLen;    /* sum of len                                         */
    bg_size restUp;     /* sum of entries >= own row index                    */
    bg_size restInQ;    /* number of entries equal to G_Q                     */
    bg_size restInP;    /* number of entries equal to G_P                     */
    bg_size restBound;  /* every entry of every such row is < restBound       */
  } r;
} bg_adj;
#define BG_ADJ_TOTAL(a) ((a).r.total)
#define BG_ADJ_TOTALUP(a) ((a).r.totalUp)
#define BG_ADJ_INQ(a)                                                         \
  ((G_P == G_Q ? (a).rowP->c.nP : (a).rowP->c.nQ + (a).rowQ->c.nQ) + (a).r.restInQ)
#define BG_ADJ_INP(a) ((a).rowP->c.nP + (a).rowQ->c.nP + (a).r.restInP)
#define BG_REST_AX(a)                                                         \
  ((a).r.restLen < BG_CAP && (a).r.restUp <= (a).r.restLen &&                 \
   (a).r.restInQ <= (a).r.restLen && (a).r.restInP <= (a).r.restLen &&        \
   (a).r.total < BG_CAP && (a).r.restLen <= (a).r.total &&                    \
   (a).r.totalUp <= (a).r.total && (a).r.restUp <= (a).r.totalUp)
#define BG_ADJ_ROWS_AX(a)                                                     \
  ((a).rowP->c.len <= (a).r.total && (a).rowQ->c.len <= (a).r.total &&        \
   (a).rowP->c.up <= (a).r.totalUp && (a).rowQ->c.up <= (a).r.totalUp)
#define BG_ADJ_FRESH(a)                                                       \
  (__CPROVER_is_fresh((a).rowP, sizeof(bg_list)) &&                           \
   __CPROVER_is_fresh((a).rowQ, sizeof(bg_list)))
#define BG_ADJ_WF(a)                                                          \
  (BG_LIST_WF(*(a).rowP) && BG_LIST_WF(*(a).rowQ) && (a).rowP->idx == G_P &&   \
   (a).rowQ->idx == G_Q && (a).r.restBound <= ((bg_size)1 << 32) &&                 \
   BG_REST_AX(a) &&                                                           \
   BG_ADJ_ROWS_AX(a) &&                                                       \
   ((bg_size)G_P < (a).n || (a).rowP->c.len == 0) &&                          \
   ((bg_size)G_Q < (a).n || (a).rowQ->c.len == 0) &&                          \
   (G_P != G_Q || (a).rowQ->c.len == 0))
typedef struct {
  const struct bg_adj *a;
  bg_size F, below, belowUp;
  bg_size belowInQ; /* entries equal to G_Q in the rows below F */
  bg_size rank;  /* ghost: number of increments of the edge iterator the frontier follows */
  bg_size rankQ; /* ghost: how many of the positions passed held G_Q */
} bg_ghost_frontier_t;
extern bg_ghost_frontier_t bg_ghost_frontier;
#define BG_EQ_VLABEL(a, b) ((a).v == (b).v)
#define BG_EQ_SCALAR(a, b) ((a) == (b))
#define BG_EQ_TRUE(a, b) 1
#define BG_ZERO_STRUCT {0}
#define BG_RETURN_UNSPECIFIED(T)                                              \
  do {                                                                        \
    T bg_unspec;                                                              \
    __CPROVER_havoc_object(&bg_unspec);                                       \
    return bg_unspec;                                                         \
  } while (0)
extern const VLabel bg_zero_VLabel;
extern const NoLabel bg_zero_NoLabel;
extern const EdgeMultiplicity bg_zero_uint;
extern const bg_real bg_zero_real;
typedef struct { bg_bool hasP, hasQ; bg_size restCount; } bg_set_u;
/* ---------------------------------------------------------------- binary edge-list files (C14, C15)
   The file on disk is one ghost object.  Record level (loaders, writers): the content is a sequence of
   complete records {source,destination}, classified at the observation points, followed by `tail` bytes of
   a record cut short (tail < BG_REC_BYTES).  Byte level (-DBG_STREAM_BYTES, the codec units): the next
   eight bytes to read / the last eight bytes written. */
#define BG_REC_BYTES 8 /* two 32-bit vertex indices; unlabelled records */
typedef struct {
  bg_bool openable;         /* can the file be opened (either direction)            */
  bg_size nPQ, nQP, nOther; /* complete records (G_P,G_Q), (G_Q,G_P) [G_P != G_Q], others */
  bg_size tail;             /* bytes of a final, incomplete record                  */
  bg_size otherBound;       /* every vertex index in an `other` record is < otherBound */
  bg_size bytes;            /* file length                                          */
} bg_file_t;
extern bg_file_t bg_file;
typedef struct { bg_bool fail; bg_bool open; } bg_ios;
typedef struct {
  bg_ios base;
  bg_size nPQ, nQP, nOther, tail; /* not yet read */
  bg_size otherBound;
  bg_bool inrec;            /* the first field of a complete record has been read  */
  VertexIndex second;       /* ... and this is its second field                    */
  unsigned char next[8];    /* byte level: the bytes ahead                         */
  bg_size avail;            /* byte level: how many are left                       */
} bg_ifstream;
typedef struct {
  bg_ios base;
  bg_bool inrec;            /* the first field of a record has been written        */
  VertexIndex first;
  unsigned char last[8];    /* byte level: the bytes written most recently         */
  bg_size lastn;
} bg_ofstream;
typedef struct { char unused; } bg_string;
#define BG_IOS_IN 8
#define BG_IOS_OUT 16
#define BG_IOS_BINARY 4
extern bg_bool bg_SYSTEM_IS_BIG_ENDIAN;
#ifndef BG_HOST_BIG_ENDIAN
#define BG_HOST_BIG_ENDIAN 0 /* the machine model of the unit (goto-cc --big-endian sets 1) */
#endif
#define BG_FILE_WF(f) ((f).nPQ < BG_CAP && (f).nQP < BG_CAP && (f).nOther < BG_CAP && (f).tail < BG_REC_BYTES && \
                       (G_P != G_Q || (f).nQP == 0) && (f).otherBound <= ((bg_size)1 << 32))
/* ---------------------------------------------------------------- path searches (C11, C19)
   vector<VertexIndex>, vector<bool>: the entries at the observation points; vector<bool> also carries the
   ghost number of true entries.  queue<VertexIndex>: a BAG (the order of a queue is not modelled: front()
   yields some member, pop() removes that one) with ghost totals of pushes and pops. */
typedef struct { bg_size n; VertexIndex vP, vQ; } bg_vec_u;
typedef struct { bg_size n; bg_bool vP, vQ; bg_size nTrue; bg_size restTrue; /* true entries off the observation points */
                 bg_bool lastValid; bg_size lastI; bg_bool lastB; /* the unobserved bit read most recently */ } bg_vec_b;
#define BG_VECB_OBS(v) (((bg_size)G_P < (v).n ? 1 : 0) + ((G_P != G_Q && (bg_size)G_Q < (v).n) ? 1 : 0))
typedef struct { bg_vec_b *v; bg_size i; } bg_bitref;
typedef struct {
  bg_size nP, nQ, nO;                 /* members equal to G_P, to G_Q (0 when G_P == G_Q), others */
  bg_size bound;                      /* every member < bound                                    */
  VertexIndex cur; bg_bool curValid;  /* the member front() last returned                        */
  bg_size pushed, popped;             /* ghost: totals since construction                        */
  bg_size pushedP, pushedQ;           /* ghost: pushes of G_P / G_Q                              */
} bg_queue_u;
extern const bg_size BG_VERTEX_MAX;
extern bg_size bg_ghost_scans;        /* ghost: neighbourhood scans of the running search (C19)  */
extern VertexIndex bg_scratch_u;
extern bg_size bg_ghost_pushes, bg_ghost_pushes_q; /* ghost: pushes of the finished search, and those of G_Q */
extern VertexIndex bg_ghost_src;      /* ghost: the source of the running search */
#define BG_QUEUE_LEN(q) ((q).nP + (q).nQ + (q).nO)
#define BG_VECB_WF(v) ((v).nTrue == ((v).vP && (bg_size)G_P < (v).n ? 1 : 0) + ((v).vQ && G_P != G_Q && (bg_size)G_Q < (v).n ? 1 : 0) + (v).restTrue && \
                       (v).n <= ((bg_size)1 << 32) && (v).restTrue <= (v).n && (v).restTrue + BG_VECB_OBS(v) <= (v).n && \
                       (!(v).lastValid || ((v).lastI != (bg_size)G_P && (v).lastI != (bg_size)G_Q && (v).lastI < (v).n && \
                                           ((v).lastB ? (v).restTrue > 0 : (v).restTrue + BG_VECB_OBS(v) < (v).n))))
/* std::list<Edge> handed to an edge-sequence constructor: numbers of entries (G_P,G_Q), (G_Q,G_P), others;
   its iterator: the entries not yet visited (order irrelevant to what is proved: first insertion wins and
   unlabelled edges carry nothing) */
typedef struct { bg_size nPQ, nQP, nOther; bg_size bound; /* every index in an `other` entry < bound */ } bg_edgeseq;
typedef struct { bg_size remPQ, remQP, remOther; bg_size bound; bg_edge cur; } bg_edgeseq_it;
#define BG_ESEQ_WF(s) ((s).nPQ < BG_CAP && (s).nQP < BG_CAP && (s).nOther < BG_CAP && (G_P != G_Q || (s).nQP == 0) && (s).bound <= ((bg_size)1 << 32))
#define BG_ESEQ_LEFT(it) ((it).remPQ + (it).remQP + (it).remOther)
/* std::list<LabeledEdge<VLabel>>: as bg_edgeseq plus the label of the FIRST entry (G_P,G_Q), of the first entry
   (G_Q,G_P), and which of the two orientations comes first in the list (an undirected graph keeps the label of
   the first entry of the pair in either orientation); the walk is in list order */
typedef struct { VertexIndex f0, f1; VLabel f2; } bg_ledge_VLabel;
typedef struct { bg_size nPQ, nQP, nOther; bg_size bound; VLabel firstPQ, firstQP; bg_bool pqBeforeQp; } bg_ledgeseq_VLabel;
typedef struct { bg_size remPQ, remQP, remOther; bg_size bound; bg_ledge_VLabel cur; bg_size nPQ, nQP; VLabel firstPQ, firstQP; bg_bool pqBeforeQp; } bg_ledgeseq_VLabel_it;
/* std::unordered_set<VertexIndex>: membership of the observation points, number of other members */
typedef struct { bg_bool hasP, hasQ; bg_size restCount; bg_size restBound; /* every other member < restBound */ } bg_uset_u;
/* its iterator: the elements not yet passed (the one under the cursor included); order unspecified */
typedef struct { bg_bool remP, remQ; bg_size remRest; bg_size restBound; VertexIndex cur; bg_bool found; bg_bool walking; } bg_uset_it;
#define BG_USET_LEFT(it) (((it).remP ? 1 : 0) + ((it).remQ ? 1 : 0) + (it).remRest)
#define BG_USET_WF(s) ((s).restCount < BG_CAP && (G_P != G_Q || !(s).hasQ))
typedef struct { bg_size n; bg_size vP, vQ; } bg_vec_sz;
typedef struct { bg_vec_sz first; bg_vec_u second; } bg_preds;
typedef struct { bg_vec_sz first; struct bg_adj second; } bg_mpreds;
extern bg_size bg_scratch_sz;
/* ghost (lemma L7): the pair of the most recent label lookup */
typedef struct { VertexIndex src, dst; } bg_ghost_lookup_t;
extern bg_ghost_lookup_t bg_ghost_lookup;
typedef struct { bg_size n; bg_vec_sz rowP, rowQ; bg_size m; } bg_mat_sz;
/* vector<EdgeWeight> / WeightMatrix: the entries at the observation points (A-REAL) */
typedef struct { bg_size n; bg_real vP, vQ; } bg_vec_real;
typedef struct { bg_size n; bg_vec_real rowP, rowQ; bg_size m; } bg_mat_real;
extern bg_real bg_scratch_real;
extern bg_vec_real bg_scratch_vec_real;
extern bg_vec_sz bg_scratch_vec_sz;
/* clean cache, frontier untouched (functions that cannot mutate a graph) */
#define BG_SCRATCH_CLEAN_NF                                                   \
  (!bg_scratch_row.valid && bg_scratch_row.owner == 0 && bg_cur_adj == 0 &&   \
   !BG_CAT(bg_scratch_val_, BG_L).valid && !BG_CAT(bg_scratch_val_, BG_L).out)
#define BG_SCRATCH_CLEAN                                                      \
  (!bg_scratch_row.valid && bg_scratch_row.owner == 0 && bg_cur_adj == 0 &&   \
   bg_ghost_frontier.a == 0 && !BG_CAT(bg_scratch_val_, BG_L).valid &&        \
   !BG_CAT(bg_scratch_val_, BG_L).out)
#define BG_MAP_FRESH(m)                                                       \
  (__CPROVER_is_fresh((m).valPQ, sizeof(*(m).valPQ)) &&                       \
   __CPROVER_is_fresh((m).valQP, sizeof(*(m).valQP)))
#ifndef BG_L
#define BG_L NoLabel
#endif
/* std::unordered_map<Edge, L, hashEdge>: observed at keys (G_P,G_Q), (G_Q,G_P) */
#define BG_DEFINE_MAP_TYPES(TAG, T)                                           \
  typedef struct bg_map_##TAG {                                               \
    struct {                                                                  \
      bg_bool hasPQ, hasQP; /* keys (G_P,G_Q), (G_Q,G_P); QP unused if P==Q */\
      bg_size restCount;    /* entries under other keys                   */  \
      bg_size restSum;      /* sum (mod 2^64) of the values under other keys, except a */\
                            /* cell checked out for writing (numeric labels)*/\
    } s;                                                                      \
    T *valPQ, *valQP;     /* separate objects, see bg_adj                  */ \
  } bg_map_##TAG;                                                             \
  typedef struct {                                                            \
    bg_bool valid, has;                                                       \
    bg_bool out;          /* checked out for writing: val not in restSum */   \
    T val;                                                                    \
    bg_edge key;                                                              \
    const bg_map_##TAG *from;                                                 \
  } bg_scratch_val_##TAG##_t;                                                 \
  extern bg_scratch_val_##TAG##_t bg_scratch_val_##TAG;                       \
  extern T bg_dummy_##TAG;
BG_DEFINE_MAP_TYPES(VLabel, VLabel)
BG_DEFINE_MAP_TYPES(NoLabel, NoLabel)
BG_DEFINE_MAP_TYPES(uint, EdgeMultiplicity)
BG_DEFINE_MAP_TYPES(real, bg_real)

#endif
