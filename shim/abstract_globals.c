/* definitions of the ghost globals of shim/abstract.h */
#include "abstract.h"
int bg_exc;
VertexIndex G_P, G_Q;
bg_scratch_row_t bg_scratch_row;
bg_scratch_val_VLabel_t bg_scratch_val_VLabel;
bg_scratch_val_NoLabel_t bg_scratch_val_NoLabel;
bg_scratch_val_uint_t bg_scratch_val_uint;
bg_scratch_val_real_t bg_scratch_val_real;
VLabel bg_dummy_VLabel;
NoLabel bg_dummy_NoLabel;
EdgeMultiplicity bg_dummy_uint;
bg_real bg_dummy_real;
bg_size bg_scratch_sz;
bg_ghost_lookup_t bg_ghost_lookup;
bg_vec_sz bg_scratch_vec_sz;
const VLabel bg_zero_VLabel;
const NoLabel bg_zero_NoLabel;
const EdgeMultiplicity bg_zero_uint;
const bg_real bg_zero_real;
struct bg_adj *bg_cur_adj;
bg_ghost_frontier_t bg_ghost_frontier;
bg_file_t bg_file;
bg_bool bg_SYSTEM_IS_BIG_ENDIAN;
const bg_size BG_VERTEX_MAX = 4294967295ul;
bg_size bg_ghost_scans;
VertexIndex bg_scratch_u;
VertexIndex bg_ghost_src;
bg_size bg_ghost_pushes, bg_ghost_pushes_q;
