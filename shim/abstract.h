/* Abstract container shim for the unbounded (contract) tier.  DESIGN.md §4.
 *
 * Every std:: container the extracted BaseGraph code touches is represented
 * by ghost counters relative to two ghost observation points G_P, G_Q that
 * the program text never reads.  Each operation asserts the standard's
 * precondition (label "STL-PRE ...", these are the C07/C17 obligations) and
 * then has its exact effect on the counters.  Unobserved parts are havocked
 * subject to facts true of every concrete state (over-approximation, L2).
 *
 * Every __CPROVER_assume in this file is listed by bin/scan_assumes and is
 * part of assumption A-STL.
 */
#ifndef BG_ABSTRACT_H
#define BG_ABSTRACT_H
void *malloc(__CPROVER_size_t);
#include "abs_types.h"






/* ghost observation points: never assigned, never read by emitted code */



/* ------------------------------------------------------------------ labels */
/* A-REAL: weights as exact integers in the unbounded tier */


/* ------------------------------------------------- std::list<VertexIndex> */
/* Stored counters of one list relative to (G_P, G_Q, idx).  Every quantity a
   contract relates is STORED and updated by the same delta, never recomputed
   as a sum: SAT proves x-(x-k)==k at once but not re-associated 4-term sums
   (measured: 1 s vs > 800 s). */


/* entries >= idx among the observed classes */
/* Partition axioms: true of the abstraction of EVERY concrete list (the
   classes partition its entries), hence assumed -- never proved -- after each
   shim operation and at load (A-STL / L2).  */
/* the relational part, assumed locally where an operation needs it */

/* One-entry cell for a row at an index other than G_P,G_Q (DESIGN §4.3).
   const operator[] loads a copy; non-const operator[] additionally records
   the owning vector so that every mutation of the cell updates the vector's
   rest sums by the same delta. */

/* class of a value relative to a list */

/* cursor: suffix counters + value under the cursor (DESIGN §4.4) */


/* ghost: the vector whose operator[] was evaluated last (owner of observed rows) */
static inline void bg__rest_sub(bg_list *l, bg_size k, bg_size kup, bg_size kq, bg_size kp);
static inline void bg__rest_add(bg_list *l, bg_bool isup, bg_bool isq, bg_bool isp);

/* facts chosen at arrival: the value under the cursor belongs to a non-empty class */
static inline void bg__it_arrive(bg_it *it) {
  BG_ASSUME(BG_CNT_AX(it->r, it->idx)); /* the suffix is a list too */
  if (it->r.len > 0) {
    VertexIndex x = nondet_vertex();
    BG_ASSUME(BG_CNT_AX_SUM(it->r, it->idx));
    BG_ASSUME((bg_size)x < it->bound);
    BG_ASSUME(!BG_IS_P(x) || it->r.nP > 0);
    BG_ASSUME(!BG_IS_Q(x) || it->r.nQ > 0);
    BG_ASSUME(!BG_IS_O(x) || it->r.len > it->r.nP + it->r.nQ);
    BG_ASSUME(!((bg_size)x >= it->idx) || it->r.up > 0);
    BG_ASSUME(!((bg_size)x < it->idx) || it->r.len > it->r.up);
    BG_ASSUME(!(BG_IS_O(x) && (bg_size)x >= it->idx) || it->r.up > BG_UPPQ(it->r, it->idx));
    it->cur = x;
  }
}

static inline bg_size bg_list_u__size(const bg_list *l) {
  BG_ROW_CHECK(l);
  return l->c.len;
}
static inline bg_bool bg_list_u__empty(const bg_list *l) {
  BG_ROW_CHECK(l);
  return l->c.len == 0;
}

static inline void bg_list_u__ctor(bg_list *l) {
  l->c.len = l->c.nP = l->c.nQ = l->c.up = 0;
  l->idx = 0;
  l->bound = 0;
}
static inline bg_list bg_list_u__copy(const bg_list *l) {
  BG_ROW_CHECK(l);
  return *l;
}

static inline void bg_list_u__push_back(bg_list *l, const VertexIndex *xp) {
  VertexIndex x = *xp;
  BG_ROW_CHECK_MUT(l);
  BG_ASSUME(l->c.len + 1 < BG_CAP); /* B-LEN */
  l->c.len++;
  if (BG_IS_P(x))
    l->c.nP++;
  else if (BG_IS_Q(x))
    l->c.nQ++;
  if ((bg_size)x >= l->idx)
    l->c.up++;
  if ((bg_size)x >= l->bound)
    l->bound = (bg_size)x + 1;
  bg__rest_add(l, (bg_size)x >= l->idx, x == G_Q, x == G_P);
}
#define bg_list_u__push_front bg_list_u__push_back

/* std::list::remove(value): removes every copy */
static inline void bg_list_u__remove(bg_list *l, const VertexIndex *xp) {
  VertexIndex x = *xp;
  bg_size k;
  BG_ROW_CHECK_MUT(l);
  if (BG_IS_P(x)) {
    k = l->c.nP;
    l->c.nP = 0;
  } else if (BG_IS_Q(x)) {
    k = l->c.nQ;
    l->c.nQ = 0;
  } else {
    k = nondet_bg_size();
    BG_ASSUME(BG_CNT_AX_SUM(l->c, l->idx));
    BG_ASSUME(k <= l->c.len - (l->c.nP + l->c.nQ));
    if ((bg_size)x >= l->idx)
      BG_ASSUME(k <= l->c.up - BG_UPPQ(l->c, l->idx));
    else
      BG_ASSUME(k <= (l->c.len - (l->c.nP + l->c.nQ)) - (l->c.up - BG_UPPQ(l->c, l->idx)));
  }
  l->c.len -= k;
  if ((bg_size)x >= l->idx)
    l->c.up -= k;
  bg__rest_sub(l, k, (bg_size)x >= l->idx ? k : 0, x == G_Q ? k : 0, x == G_P ? k : 0);
}

static inline void bg_list_u__clear(bg_list *l) {
  BG_ROW_CHECK_MUT(l);
  bg__rest_sub(l, l->c.len, l->c.up, G_P == G_Q ? l->c.nP : l->c.nQ, l->c.nP);
  l->c.len = l->c.nP = l->c.nQ = l->c.up = 0;
}

static inline bg_it bg_list_u__begin(const bg_list *l) {
  bg_it it;
  BG_ROW_CHECK(l);
  it.r = l->c;
  it.p.len = it.p.nP = it.p.nQ = it.p.up = 0;
  it.idx = l->idx;
  it.poisoned = 0;
  it.cur = 0;
  it.bound = l->bound;
  bg__it_arrive(&it);
  return it;
}
static inline bg_it bg_list_u__end(const bg_list *l) {
  bg_it it;
  BG_ROW_CHECK(l);
  it.r.len = it.r.nP = it.r.nQ = it.r.up = 0;
  it.p = l->c;
  it.idx = l->idx;
  it.poisoned = 0;
  it.cur = 0;
  it.bound = l->bound;
  return it;
}
#define bg_list_u__cbegin bg_list_u__begin
#define bg_list_u__cend bg_list_u__end

/* iterator comparison: equal positions <=> equal distance to end().
   (comparing iterators of different lists is UB; the row index is checked) */
static inline bg_bool bg_it_u__eq(bg_it a, bg_it b) {
  BG_PRE(!a.poisoned && !b.poisoned, "compare invalidated list iterator");
  BG_PRE(a.idx == b.idx, "compare iterators of different lists");
  return a.r.len == b.r.len;
}
static inline bg_bool bg_it_u__ne(bg_it a, bg_it b) { return !bg_it_u__eq(a, b); }
/* default-constructed (singular) iterator */
static inline void bg_it_u__ctor(bg_it *it) {
  it->r.len = it->r.nP = it->r.nQ = it->r.up = 0;
  it->p.len = it->p.nP = it->p.nQ = it->p.up = 0;
  it->cur = 0;
  it->idx = 0;
  it->bound = 0;
  it->poisoned = 1;
}
/* value-initialised iterator: may be compared with another value-initialised one (C++14) */
#define BG_IT_SINGULAR_IDX (~(bg_size)0)
static inline void bg_it_u__ctor_value(bg_it *it) {
  it->r.len = it->r.nP = it->r.nQ = it->r.up = 0;
  it->p.len = it->p.nP = it->p.nQ = it->p.up = 0;
  it->cur = 0;
  it->idx = BG_IT_SINGULAR_IDX;
  it->bound = 0;
  it->poisoned = 0;
}
static inline const VertexIndex *bg_it_u__deref(const bg_it *it) {
  BG_PRE(!it->poisoned, "dereference invalidated list iterator");
  BG_PRE(it->r.len > 0, "dereference end() list iterator");
  return &it->cur;
}
static inline void bg__it_step(bg_it *it) {
  it->r.len--;
  it->p.len++;
  if (BG_IS_P(it->cur)) {
    it->r.nP--;
    it->p.nP++;
  } else if (BG_IS_Q(it->cur)) {
    it->r.nQ--;
    it->p.nQ++;
  }
  if ((bg_size)it->cur >= it->idx) {
    it->r.up--;
    it->p.up++;
  }
  bg__it_arrive(it);
}
static inline bg_it *bg_it_u__preinc(bg_it *it) {
  BG_PRE(!it->poisoned, "increment invalidated list iterator");
  BG_PRE(it->r.len > 0, "increment end() list iterator");
  bg__it_step(it);
  return it;
}
static inline bg_it bg_it_u__postinc(bg_it *it) {
  bg_it old = *it;
  bg_it_u__preinc(it);
  return old;
}

/* list.erase(pos): pos by value; the erased element leaves the list.
   Returns the following position. */
static inline bg_it bg_list_u__erase(bg_list *l, bg_it pos) {
  BG_ROW_CHECK_MUT(l);
  BG_PRE(!pos.poisoned, "erase through invalidated list iterator");
  BG_PRE(pos.r.len > 0, "erase at end() list iterator");
  BG_PRE(pos.idx == l->idx, "erase with iterator of another list");
  VertexIndex x = pos.cur;
  BG_PRE(l->c.len > 0, "erase: iterator does not belong to list");
  l->c.len--;
  if (BG_IS_P(x)) {
    BG_PRE(l->c.nP > 0, "erase: iterator does not belong to list");
    l->c.nP--;
  } else if (BG_IS_Q(x)) {
    BG_PRE(l->c.nQ > 0, "erase: iterator does not belong to list");
    l->c.nQ--;
  }
  if ((bg_size)x >= l->idx) {
    BG_PRE(l->c.up > 0, "erase: iterator does not belong to list");
    l->c.up--;
  }
  bg__rest_sub(l, 1, (bg_size)x >= l->idx, x == G_Q, x == G_P);
  {
    bg_cnt keep = pos.p; /* the erased element does not count as passed */
    bg__it_step(&pos);
    pos.p = keep;
  }
  return pos;
}
/* erase(j) where j is a named variable: j is invalidated afterwards */
static inline bg_it bg_list_u__erase_named(bg_list *l, bg_it *pos) {
  bg_it r = bg_list_u__erase(l, *pos);
  pos->poisoned = 1;
  return r;
}

/* std::find(first,last,x) over a whole list [begin,end) */
static inline bg_it bg_find_u(bg_it first, bg_it last, const VertexIndex *xp) {
  VertexIndex x = *xp;
  BG_PRE(!first.poisoned && !last.poisoned, "find on invalidated iterators");
  BG_PRE(first.idx == last.idx && last.r.len <= first.r.len,
         "find: [first,last) is not a valid range");
  /* only whole-suffix searches (last == end()) are modelled */
  __CPROVER_assert(last.r.len == 0, "ABSTRACTION find: last must be end()");
  bg_bool found = BG_IS_P(x)   ? first.r.nP > 0
                  : BG_IS_Q(x) ? first.r.nQ > 0
                               : (first.r.len > first.r.nP + first.r.nQ && nondet_bg_bool());
  bg_it res = last;
  res.cur = x;
  res.p.len = first.p.len + first.r.len;
  res.p.nP = first.p.nP + first.r.nP;
  res.p.nQ = first.p.nQ + first.r.nQ;
  res.p.up = first.p.up + first.r.up;
  if (!found)
    return res;
  res.r.len = nondet_bg_size();
  res.r.nP = nondet_bg_size();
  res.r.nQ = nondet_bg_size();
  res.r.up = nondet_bg_size();
  BG_ASSUME(res.r.len >= 1 && res.r.len <= first.r.len && res.r.nP <= first.r.nP &&
            res.r.nQ <= first.r.nQ && res.r.up <= first.r.up);
  BG_ASSUME(BG_CNT_AX(res.r, res.idx) && BG_CNT_AX_SUM(res.r, res.idx));
  BG_ASSUME(!BG_IS_P(x) || res.r.nP > 0);
  BG_ASSUME(!BG_IS_Q(x) || res.r.nQ > 0);
  res.p.len -= res.r.len;
  res.p.nP -= res.r.nP;
  res.p.nQ -= res.r.nQ;
  res.p.up -= res.r.up;
  return res;
}

/* ------------------------------- std::vector<std::list<VertexIndex>> (adj) */

/* in-degree of G_Q / G_P as the number of entries equal to it */

/* rest sums are sums over the same rows: axioms of the abstraction */
/* a sum is at least each of its summands */

static inline void bg_vec_list_u__ctor(bg_adj *a) {
  a->n = 0;
  a->rowP = (bg_list *)malloc(sizeof(bg_list));
  a->rowQ = (bg_list *)malloc(sizeof(bg_list));
  BG_ASSUME(a->rowP != 0 && a->rowQ != 0);
  bg_list_u__ctor(a->rowP);
  bg_list_u__ctor(a->rowQ);
  a->rowP->idx = G_P;
  a->rowQ->idx = G_Q;
  a->r.total = a->r.totalUp = a->r.restLen = a->r.restUp = a->r.restInQ = a->r.restInP = 0;
  a->r.restBound = 0;
}

static inline bg_size bg_vec_list_u__size(const bg_adj *a) { return a->n; }
/* vector<list>(n, empty list) */
static inline void bg_vec_list_u__ctor_2(bg_adj *a, bg_size n, const bg_list *v) {
  __CPROVER_assert(v->c.len == 0, "ABSTRACTION vector<list>(n, value) with a non-empty value");
  bg_vec_list_u__ctor(a);
  a->n = n;
}

/* ghost frontier (DESIGN §4.3): below == sum of len over rows with index < F
   of vector a.  Started/advanced by ghost statements of the spec files; kept
   exact by every row mutation; at F == a->n it equals the stored total (a
   definitional fact of the abstraction, assumed there). */

/* every mutation of a row updates the stored sums of its vector by the same delta */
static inline struct bg_adj *bg__owner(bg_list *l) {
  if (l == &bg_scratch_row.row)
    return bg_scratch_row.owner;
  if (bg_cur_adj != 0 && (l == bg_cur_adj->rowP || l == bg_cur_adj->rowQ))
    return bg_cur_adj;
  return 0; /* free-standing list */
}
static inline void bg__rest_sub(bg_list *l, bg_size k, bg_size kup, bg_size kq, bg_size kp) {
  struct bg_adj *o = bg__owner(l);
  if (o != 0) {
    o->r.total -= k;
    o->r.totalUp -= kup;
    if (l == &bg_scratch_row.row) {
      o->r.restLen -= k;
      o->r.restUp -= kup;
      o->r.restInQ -= kq;
      o->r.restInP -= kp;
    }
    if (bg_ghost_frontier.a == o && l->idx < bg_ghost_frontier.F) {
      bg_ghost_frontier.below -= k;
      bg_ghost_frontier.belowUp -= kup;
      bg_ghost_frontier.belowInQ -= kq;
    }
    BG_ASSUME(BG_REST_AX(*o));
    BG_ASSUME(l->c.len <= o->r.total && l->c.up <= o->r.totalUp);
    BG_ASSUME(BG_ADJ_ROWS_AX(*o));
  }
  BG_ASSUME(BG_CNT_AX(l->c, l->idx));
}
static inline void bg__rest_add(bg_list *l, bg_bool isup, bg_bool isq, bg_bool isp) {
  struct bg_adj *o = bg__owner(l);
  if (o != 0) {
    BG_ASSUME(o->r.total + 1 < BG_CAP); /* B-LEN */
    o->r.total += 1;
    o->r.totalUp += isup;
    if (l == &bg_scratch_row.row) {
      o->r.restLen += 1;
      o->r.restUp += isup;
      o->r.restInQ += isq;
      o->r.restInP += isp;
      if (l->bound > o->r.restBound)
        o->r.restBound = l->bound;
    }
    if (bg_ghost_frontier.a == o && l->idx < bg_ghost_frontier.F) {
      bg_ghost_frontier.below += 1;
      bg_ghost_frontier.belowUp += isup;
      bg_ghost_frontier.belowInQ += isq;
    }
    BG_ASSUME(BG_REST_AX(*o));
    BG_ASSUME(l->c.len <= o->r.total && l->c.up <= o->r.totalUp);
    BG_ASSUME(BG_ADJ_ROWS_AX(*o));
  }
  BG_ASSUME(BG_CNT_AX(l->c, l->idx));
}

/* ghost: forget the cached row (emitted by the extractor around every call
   into contracted BaseGraph code and at every exit of a contracted function) */
static inline void bg_ghost_scratch_reset(void) {
  bg_cur_adj = 0;
  bg_scratch_row.valid = 0;
  bg_scratch_row.owner = 0;
  bg_scratch_row.from = 0;
}

static inline void bg__scratch_load(const bg_adj *a, bg_size i) {
  bg_scratch_row.row.c.len = nondet_bg_size();
  bg_scratch_row.row.c.nP = nondet_bg_size();
  bg_scratch_row.row.c.nQ = nondet_bg_size();
  bg_scratch_row.row.c.up = nondet_bg_size();
  bg_scratch_row.row.idx = i;
  bg_scratch_row.row.bound = a->r.restBound;
  BG_ASSUME(BG_LIST_WF(bg_scratch_row.row));
  BG_ASSUME(bg_scratch_row.row.c.len <= a->r.restLen);
  BG_ASSUME(bg_scratch_row.row.c.up <= a->r.restUp);
  BG_ASSUME((G_P == G_Q ? bg_scratch_row.row.c.nP : bg_scratch_row.row.c.nQ) <= a->r.restInQ);
  BG_ASSUME(bg_scratch_row.row.c.nP <= a->r.restInP);
  bg_scratch_row.valid = 1;
  bg_scratch_row.from = a;
}

/* ghost, first statement of an outlined loop: re-point the ghost pointers at the vector the
   contract says they designate (same values; an assignment gives CBMC's dereferencing a
   definite target where the precondition alone gives it an equality over a havocked pointer) */
static inline void bg_ghost_adopt(bg_adj *a) {
  __CPROVER_assert(bg_cur_adj == a, "ABSTRACTION adopt: loop contract must require bg_cur_adj");
  bg_cur_adj = a;
  if (bg_scratch_row.valid) {
    __CPROVER_assert(bg_scratch_row.from == a && (bg_scratch_row.owner == a || bg_scratch_row.owner == 0),
                     "ABSTRACTION adopt: scratch row belongs to another vector");
    bg_scratch_row.from = a;
    if (bg_scratch_row.owner != 0)
      bg_scratch_row.owner = a;
  }
}

static inline void bg_ghost_frontier_start(const bg_adj *a) {
  bg_ghost_frontier.a = a;
  bg_ghost_frontier.F = 0;
  bg_ghost_frontier.below = 0;
  bg_ghost_frontier.belowUp = 0;
  bg_ghost_frontier.belowInQ = 0;
  bg_ghost_frontier.rank = 0;
  bg_ghost_frontier.rankQ = 0;
  if (a->n == 0)
    BG_ASSUME(a->r.total == 0 && a->r.totalUp == 0 && BG_ADJ_INQ(*a) == 0); /* no rows, no entries */
}
/* move the frontier over row i (== F).  The row's current length is read from
   the observed row or from the cached cell; an uncached unobserved row
   contributes an unknown amount. */
static inline void bg_ghost_frontier_advance(const bg_adj *a, bg_size i) {
  __CPROVER_assert(bg_ghost_frontier.a == a && bg_ghost_frontier.F == i && i < a->n,
                   "ABSTRACTION frontier advanced out of order");
  bg_size len, up, inq;
  if (i == G_P) {
    len = a->rowP->c.len;
    up = a->rowP->c.up;
    inq = G_P == G_Q ? a->rowP->c.nP : a->rowP->c.nQ;
  } else if (i == G_Q) {
    len = a->rowQ->c.len;
    up = a->rowQ->c.up;
    inq = a->rowQ->c.nQ;
  } else if (bg_scratch_row.valid && bg_scratch_row.from == a && bg_scratch_row.row.idx == i) {
    len = bg_scratch_row.row.c.len;
    up = bg_scratch_row.row.c.up;
    inq = G_P == G_Q ? bg_scratch_row.row.c.nP : bg_scratch_row.row.c.nQ;
  } else {
    len = nondet_bg_size();
    up = nondet_bg_size();
    inq = nondet_bg_size();
    BG_ASSUME(up <= len && inq <= len && len <= a->r.restLen && up <= a->r.restUp && inq <= a->r.restInQ);
  }
  bg_ghost_frontier.below += len;
  bg_ghost_frontier.belowUp += up;
  bg_ghost_frontier.belowInQ += inq;
  bg_ghost_frontier.F = i + 1;
  BG_ASSUME(bg_ghost_frontier.below <= a->r.total && bg_ghost_frontier.belowUp <= a->r.totalUp &&
            bg_ghost_frontier.belowInQ <= BG_ADJ_INQ(*a));
  if (bg_ghost_frontier.F == a->n)
    BG_ASSUME(bg_ghost_frontier.below == a->r.total && bg_ghost_frontier.belowUp == a->r.totalUp &&
              bg_ghost_frontier.belowInQ == BG_ADJ_INQ(*a));
}

/* move the frontier over row i whose size the caller knows (from a cursor that walked it) */
static inline void bg_ghost_frontier_advance_by(const bg_adj *a, bg_size i, bg_size len, bg_size up, bg_size inq) {
  __CPROVER_assert(bg_ghost_frontier.a == a && bg_ghost_frontier.F == i && i < a->n,
                   "ABSTRACTION frontier advanced out of order");
  bg_ghost_frontier.below += len;
  bg_ghost_frontier.belowUp += up;
  bg_ghost_frontier.belowInQ += inq;
  bg_ghost_frontier.F = i + 1;
  BG_ASSUME(bg_ghost_frontier.below <= a->r.total && bg_ghost_frontier.belowUp <= a->r.totalUp &&
            bg_ghost_frontier.belowInQ <= BG_ADJ_INQ(*a));
  if (bg_ghost_frontier.F == a->n)
    BG_ASSUME(bg_ghost_frontier.below == a->r.total && bg_ghost_frontier.belowUp == a->r.totalUp &&
              bg_ghost_frontier.belowInQ == BG_ADJ_INQ(*a));
}
/* ghost lemma: the frontier stands at the last row, whose size the caller knows */
static inline void bg_ghost_frontier_last_by(const bg_adj *a, bg_size len, bg_size up, bg_size inq) {
  if (bg_ghost_frontier.a == a && bg_ghost_frontier.F < a->n)
    BG_ASSUME(bg_ghost_frontier.below + len <= a->r.total && bg_ghost_frontier.belowUp + up <= a->r.totalUp &&
              bg_ghost_frontier.belowInQ + inq <= BG_ADJ_INQ(*a));
  if (bg_ghost_frontier.a == a && bg_ghost_frontier.F + 1 == a->n)
    BG_ASSUME(bg_ghost_frontier.below + len == a->r.total && bg_ghost_frontier.belowUp + up == a->r.totalUp &&
              bg_ghost_frontier.belowInQ + inq == BG_ADJ_INQ(*a));
}
/* ghost lemma: when the frontier stands at the last row, below + that row is everything */
static inline void bg_ghost_frontier_last(const bg_adj *a) {
  if (bg_ghost_frontier.a == a && bg_ghost_frontier.F + 1 == a->n) {
    bg_size i = bg_ghost_frontier.F;
    if (i == G_P)
      BG_ASSUME(bg_ghost_frontier.below + a->rowP->c.len == a->r.total &&
                bg_ghost_frontier.belowUp + a->rowP->c.up == a->r.totalUp &&
                bg_ghost_frontier.belowInQ + (G_P == G_Q ? a->rowP->c.nP : a->rowP->c.nQ) == BG_ADJ_INQ(*a));
    else if (i == G_Q)
      BG_ASSUME(bg_ghost_frontier.below + a->rowQ->c.len == a->r.total &&
                bg_ghost_frontier.belowUp + a->rowQ->c.up == a->r.totalUp &&
                bg_ghost_frontier.belowInQ + a->rowQ->c.nQ == BG_ADJ_INQ(*a));
    else if (bg_scratch_row.valid && bg_scratch_row.from == a && bg_scratch_row.row.idx == i)
      BG_ASSUME(bg_ghost_frontier.below + bg_scratch_row.row.c.len == a->r.total &&
                bg_ghost_frontier.belowUp + bg_scratch_row.row.c.up == a->r.totalUp &&
                bg_ghost_frontier.belowInQ + (G_P == G_Q ? bg_scratch_row.row.c.nP : bg_scratch_row.row.c.nQ) == BG_ADJ_INQ(*a));
  }
}

/* operator[] const */
static inline const bg_list *bg_vec_list_u__index_c(const bg_adj *a, bg_size i) {
  BG_PRE(i < a->n, "vector<list>::operator[] index out of range");
  if (i == G_P)
    return a->rowP;
  if (i == G_Q)
    return a->rowQ;
  if (!(bg_scratch_row.valid && bg_scratch_row.from == a &&
        bg_scratch_row.row.idx == i)) {
    bg__scratch_load(a, i);
    bg_scratch_row.owner = 0;
  }
  return &bg_scratch_row.row;
}
/* operator[] non-const */
static inline bg_list *bg_vec_list_u__index(bg_adj *a, bg_size i) {
  BG_PRE(i < a->n, "vector<list>::operator[] index out of range");
  bg_cur_adj = a;
  if (i == G_P)
    return a->rowP;
  if (i == G_Q)
    return a->rowQ;
  if (!(bg_scratch_row.valid && bg_scratch_row.from == a &&
        bg_scratch_row.row.idx == i))
    bg__scratch_load(a, i);
  bg_scratch_row.owner = a;
  return &bg_scratch_row.row;
}

/* vector::at : range-checked */
static inline const bg_list *bg_vec_list_u__at_c(const bg_adj *a, bg_size i) {
  if (i >= a->n) {
    bg_exc = BG_OUT_OF_RANGE;
    return a->rowP;
  }
  return bg_vec_list_u__index_c(a, i);
}
static inline bg_list *bg_vec_list_u__at(bg_adj *a, bg_size i) {
  if (i >= a->n) {
    bg_exc = BG_OUT_OF_RANGE;
    return a->rowP;
  }
  return bg_vec_list_u__index(a, i);
}

/* vector::resize(k, empty list) -- growth only is modelled */
static inline void bg_vec_list_u__resize(bg_adj *a, bg_size k, const bg_list *v) {
  __CPROVER_assert(k >= a->n, "ABSTRACTION vector<list>::resize shrink");
  __CPROVER_assert(v->c.len == 0, "ABSTRACTION vector<list>::resize with non-empty value");
  a->n = k;
}

/* --------------------------- std::unordered_map<Edge, L, hashEdge> (labels) */
/* NUM(v): numeric value of a label for the ghost sum (0 for non-numeric labels) */
#define BG_NUM_ZERO(v) ((bg_size)0)
#define BG_NUM_VAL(v) ((bg_size)(v))
#define BG_DEFINE_MAP(TAG, T, EQ, ZERO, NUM)                                  \
  static inline void bg_map_##TAG##__ctor(bg_map_##TAG *m) {                  \
    m->s.hasPQ = m->s.hasQP = 0;                                              \
    m->valPQ = (T *)malloc(sizeof(T));                                        \
    m->valQP = (T *)malloc(sizeof(T));                                        \
    BG_ASSUME(m->valPQ != 0 && m->valQP != 0);                                \
    *m->valPQ = (T)ZERO;                                                      \
    *m->valQP = (T)ZERO;                                                      \
    m->s.restCount = 0;                                                       \
    m->s.restSum = 0;                                                         \
  }                                                                           \
  static inline bg_size bg_map_##TAG##__size(const bg_map_##TAG *m) {         \
    return (bg_size)m->s.hasPQ + (bg_size)m->s.hasQP + m->s.restCount;        \
  }                                                                           \
  /* write a checked-out cell back into the rest sum */                       \
  static inline void bg_map_##TAG##__checkin(void) {                          \
    if (bg_scratch_val_##TAG.valid && bg_scratch_val_##TAG.out) {             \
      bg_map_##TAG *o = (bg_map_##TAG *)bg_scratch_val_##TAG.from;            \
      if (bg_scratch_val_##TAG.has) {                                         \
        o->s.restSum += NUM(bg_scratch_val_##TAG.val);                        \
      }                                                                       \
      bg_scratch_val_##TAG.out = 0;                                           \
    }                                                                         \
  }                                                                           \
  static inline void bg__map_##TAG##_load(const bg_map_##TAG *m, bg_edge k) { \
    if (!(bg_scratch_val_##TAG.valid && bg_scratch_val_##TAG.from == m &&     \
          bg_scratch_val_##TAG.key.first == k.first &&                        \
          bg_scratch_val_##TAG.key.second == k.second)) {                     \
      bg_map_##TAG##__checkin();                                              \
      bg_scratch_val_##TAG.has = nondet_bg_bool();                            \
      BG_ASSUME(!bg_scratch_val_##TAG.has || m->s.restCount > 0);             \
      bg_scratch_val_##TAG.key = k;                                           \
      bg_scratch_val_##TAG.from = m;                                          \
      bg_scratch_val_##TAG.valid = 1;                                         \
      bg_scratch_val_##TAG.out = 0;                                           \
    }                                                                         \
  }                                                                           \
  static inline bg_size bg_map_##TAG##__count(const bg_map_##TAG *m,          \
                                              const bg_edge *k) {             \
    if (k->first == G_P && k->second == G_Q)                                  \
      return m->s.hasPQ;                                                      \
    if (k->first == G_Q && k->second == G_P)                                  \
      return m->s.hasQP;                                                      \
    bg__map_##TAG##_load(m, *k);                                              \
    return bg_scratch_val_##TAG.has;                                          \
  }                                                                           \
  static inline const T *bg_map_##TAG##__at_c(const bg_map_##TAG *m,          \
                                              const bg_edge *k) {             \
    if (k->first == G_P && k->second == G_Q) {                                \
      if (m->s.hasPQ)                                                         \
        return m->valPQ;                                                      \
    } else if (k->first == G_Q && k->second == G_P) {                         \
      if (m->s.hasQP)                                                         \
        return m->valQP;                                                      \
    } else {                                                                  \
      bg__map_##TAG##_load(m, *k);                                            \
      if (bg_scratch_val_##TAG.has)                                           \
        return &bg_scratch_val_##TAG.val;                                     \
    }                                                                         \
    bg_exc = BG_OUT_OF_RANGE;                                                 \
    return &bg_dummy_##TAG;                                                   \
  }                                                                           \
  static inline T *bg_map_##TAG##__index(bg_map_##TAG *m, const bg_edge *k) { \
    if (k->first == G_P && k->second == G_Q) {                                \
      if (!m->s.hasPQ) {                                                      \
        m->s.hasPQ = 1;                                                       \
        *m->valPQ = (T)ZERO;                                                  \
      }                                                                       \
      return m->valPQ;                                                        \
    }                                                                         \
    if (k->first == G_Q && k->second == G_P) {                                \
      if (!m->s.hasQP) {                                                      \
        m->s.hasQP = 1;                                                       \
        *m->valQP = (T)ZERO;                                                  \
      }                                                                       \
      return m->valQP;                                                        \
    }                                                                         \
    bg__map_##TAG##_load(m, *k);                                              \
    if (!bg_scratch_val_##TAG.has) {                                          \
      BG_ASSUME(m->s.restCount + 1 < BG_CAP); /* B-LEN */                     \
      m->s.restCount++;                                                       \
      bg_scratch_val_##TAG.has = 1;                                           \
      bg_scratch_val_##TAG.val = (T)ZERO;                                     \
      bg_scratch_val_##TAG.out = 1;                                           \
    } else if (!bg_scratch_val_##TAG.out) {                                   \
      /* check out: the caller may write through the returned reference */    \
      m->s.restSum -= NUM(bg_scratch_val_##TAG.val);                          \
      bg_scratch_val_##TAG.out = 1;                                           \
    }                                                                         \
    return &bg_scratch_val_##TAG.val;                                         \
  }                                                                           \
  static inline bg_size bg_map_##TAG##__erase(bg_map_##TAG *m,                \
                                              const bg_edge *k) {             \
    bg_size r;                                                                \
    if (k->first == G_P && k->second == G_Q) {                                \
      r = m->s.hasPQ;                                                         \
      m->s.hasPQ = 0;                                                         \
      return r;                                                               \
    }                                                                         \
    if (k->first == G_Q && k->second == G_P) {                                \
      r = m->s.hasQP;                                                         \
      m->s.hasQP = 0;                                                         \
      return r;                                                               \
    }                                                                         \
    bg__map_##TAG##_load(m, *k);                                              \
    r = bg_scratch_val_##TAG.has;                                             \
    if (r) {                                                                  \
      m->s.restCount--;                                                       \
      if (!bg_scratch_val_##TAG.out) {                                        \
        m->s.restSum -= NUM(bg_scratch_val_##TAG.val);                        \
      }                                                                       \
      bg_scratch_val_##TAG.has = 0;                                           \
    }                                                                         \
    bg_scratch_val_##TAG.out = 0;                                             \
    bg_scratch_val_##TAG.valid = 0;                                           \
    return r;                                                                 \
  }                                                                           \
  static inline void bg_map_##TAG##__clear(bg_map_##TAG *m) {                 \
    m->s.hasPQ = m->s.hasQP = 0;                                              \
    m->s.restCount = 0;                                                       \
    m->s.restSum = 0;                                                         \
    bg_scratch_val_##TAG.valid = 0;                                           \
    bg_scratch_val_##TAG.out = 0;                                             \
  }                                                                           \
  /* operator== : true => observed entries agree and sizes agree;           \
     false => nothing is promised here (witness is a ghost, see contracts) */ \
  static inline bg_bool bg_map_##TAG##__eq(const bg_map_##TAG *a,             \
                                           const bg_map_##TAG *b) {           \
    bg_bool obs = a->s.hasPQ == b->s.hasPQ && a->s.hasQP == b->s.hasQP &&     \
                  (!a->s.hasPQ || EQ(*a->valPQ, *b->valPQ)) &&                \
                  (!a->s.hasQP || EQ(*a->valQP, *b->valQP)) &&                \
                  a->s.restCount == b->s.restCount;                           \
    if (!obs)                                                                 \
      return 0;                                                               \
    if (a->s.restCount == 0)                                                  \
      return 1;                                                               \
    return nondet_bg_bool();                                                  \
  }

BG_DEFINE_MAP(VLabel, VLabel, BG_EQ_VLABEL, BG_ZERO_STRUCT, BG_NUM_ZERO)
BG_DEFINE_MAP(NoLabel, NoLabel, BG_EQ_TRUE, BG_ZERO_STRUCT, BG_NUM_ZERO)
BG_DEFINE_MAP(uint, EdgeMultiplicity, BG_EQ_SCALAR, 0, BG_NUM_VAL)
BG_DEFINE_MAP(real, bg_real, BG_EQ_SCALAR, 0, BG_NUM_VAL)

/* ---------------------------------------------------------------- misc */

static inline bg_bool bg_label_eq_VLabel(VLabel a, VLabel b) { return a.v == b.v; }
static inline bg_bool bg_label_eq_NoLabel(NoLabel a, NoLabel b) { return 1; }
static inline const VertexIndex *bg_max_u(const VertexIndex *a, const VertexIndex *b) {
  return *a < *b ? b : a;
}

/* -------------------------------------------- std::set<VertexIndex> (seen) */
static inline void bg_set_u__ctor(bg_set_u *s) { s->hasP = s->hasQ = 0; s->restCount = 0; }
static inline bg_size bg_set_u__count(const bg_set_u *s, const VertexIndex *xp) {
  VertexIndex x = *xp;
  if (BG_IS_P(x)) return s->hasP;
  if (BG_IS_Q(x)) return s->hasQ;
  if (s->restCount == 0) return 0;
  return nondet_bg_bool();
}
static inline void bg_set_u__insert(bg_set_u *s, const VertexIndex *xp) {
  VertexIndex x = *xp;
  if (BG_IS_P(x)) s->hasP = 1;
  else if (BG_IS_Q(x)) s->hasQ = 1;
  else if (s->restCount < BG_CAP) s->restCount++; /* may already be present: count is an upper bound */
}
static inline void bg_set_u__clear(bg_set_u *s) { s->hasP = s->hasQ = 0; s->restCount = 0; }

/* --------------------------------------------- binary files: std::ifstream / std::ofstream / std::string */
static inline const char *bg_string__c_str(const bg_string *s) { return &s->unused; }
static inline void bg_ifstream__ctor_2(bg_ifstream *s, const char *name, int mode) {
  (void)name; (void)mode;
  s->base.open = bg_file.openable;
  s->base.fail = !bg_file.openable;
  s->nPQ = bg_file.nPQ; s->nQP = bg_file.nQP; s->nOther = bg_file.nOther; s->tail = bg_file.tail;
  s->otherBound = bg_file.otherBound;
  s->inrec = 0; s->second = 0;
  s->avail = bg_file.bytes;
}
static inline bg_bool bg_ifstream__is_open(const bg_ifstream *s) { return s->base.open; }
static inline bg_bool bg_ios__tobool(const bg_ios *s) { return !s->fail; }
#ifdef BG_STREAM_BYTES
/* byte level: read n <= 8 bytes from the bytes ahead */
static inline bg_ifstream *bg_ifstream__read(bg_ifstream *s, char *p, long n) {
  __CPROVER_assert(n >= 0 && n <= 8, "ABSTRACTION read of at most 8 bytes");
  if (s->base.fail) return s;
  if (s->avail >= (bg_size)n) {
    /* unrolled: k = 0..7 */
    if (0 < n) p[0] = (char)s->next[0];
    if (1 < n) p[1] = (char)s->next[1];
    if (2 < n) p[2] = (char)s->next[2];
    if (3 < n) p[3] = (char)s->next[3];
    if (4 < n) p[4] = (char)s->next[4];
    if (5 < n) p[5] = (char)s->next[5];
    if (6 < n) p[6] = (char)s->next[6];
    if (7 < n) p[7] = (char)s->next[7];
    s->avail -= (bg_size)n;
  } else {
    /* short read: the characters that exist are stored, then eofbit|failbit */
    /* unrolled: k = 0..7 */
    if (0 < n && (bg_size)0 < s->avail) p[0] = (char)s->next[0];
    if (1 < n && (bg_size)1 < s->avail) p[1] = (char)s->next[1];
    if (2 < n && (bg_size)2 < s->avail) p[2] = (char)s->next[2];
    if (3 < n && (bg_size)3 < s->avail) p[3] = (char)s->next[3];
    if (4 < n && (bg_size)4 < s->avail) p[4] = (char)s->next[4];
    if (5 < n && (bg_size)5 < s->avail) p[5] = (char)s->next[5];
    if (6 < n && (bg_size)6 < s->avail) p[6] = (char)s->next[6];
    if (7 < n && (bg_size)7 < s->avail) p[7] = (char)s->next[7];
    s->avail = 0;
    s->base.fail = 1;
  }
  return s;
}
#else
/* record level, little-endian host: field-sized reads only */
static inline bg_ifstream *bg_ifstream__read(bg_ifstream *s, char *p, long n) {
  __CPROVER_assert(n == 4, "ABSTRACTION record-level reads are one 32-bit field");
  __CPROVER_assert(!bg_SYSTEM_IS_BIG_ENDIAN, "ABSTRACTION record level assumes the little-endian host (codec units cover both)");
  VertexIndex *vp = (VertexIndex *)p;
  if (s->base.fail) return s;
  if (s->inrec) {
    *vp = s->second;
    s->inrec = 0;
  } else if (s->nPQ + s->nQP + s->nOther > 0) {
    int k = nondet_int();
    BG_ASSUME(k >= 0 && k <= 2 && (k != 0 || s->nPQ > 0) && (k != 1 || s->nQP > 0) && (k != 2 || s->nOther > 0));
    if (k == 0) { *vp = G_P; s->second = G_Q; s->nPQ--; }
    else if (k == 1) { *vp = G_Q; s->second = G_P; s->nQP--; }
    else {
      VertexIndex a = nondet_vertex(), b = nondet_vertex();
      BG_ASSUME(!(a == G_P && b == G_Q) && !(a == G_Q && b == G_P) && (bg_size)a < s->otherBound && (bg_size)b < s->otherBound);
      *vp = a; s->second = b; s->nOther--;
    }
    s->inrec = 1;
  } else if (s->tail >= 4) {
    /* the first field of the cut record is all there: the read succeeds */
    *vp = nondet_vertex();
    s->tail -= 4;
  } else {
    /* short read: some bytes of *vp may have been overwritten */
    *vp = nondet_vertex();
    s->tail = 0;
    s->base.fail = 1;
  }
  return s;
}
#endif
static inline void bg_ofstream__ctor_2(bg_ofstream *s, const char *name, int mode) {
  (void)name; (void)mode;
  s->base.open = bg_file.openable;
  s->base.fail = !bg_file.openable;
  s->inrec = 0; s->first = 0; s->lastn = 0;
  if (bg_file.openable) { /* opened for writing: truncated */
    bg_file.nPQ = bg_file.nQP = bg_file.nOther = 0; bg_file.tail = 0; bg_file.bytes = 0; bg_file.otherBound = 0;
  }
}
static inline bg_bool bg_ofstream__is_open(const bg_ofstream *s) { return s->base.open; }
#ifdef BG_STREAM_BYTES
static inline bg_ofstream *bg_ofstream__write(bg_ofstream *s, const char *p, long n) {
  __CPROVER_assert(n >= 0 && n <= 8, "ABSTRACTION write of at most 8 bytes");
  if (s->base.fail) return s;
  /* unrolled: k = 0..7 */
  if (0 < n) s->last[0] = (unsigned char)p[0];
  if (1 < n) s->last[1] = (unsigned char)p[1];
  if (2 < n) s->last[2] = (unsigned char)p[2];
  if (3 < n) s->last[3] = (unsigned char)p[3];
  if (4 < n) s->last[4] = (unsigned char)p[4];
  if (5 < n) s->last[5] = (unsigned char)p[5];
  if (6 < n) s->last[6] = (unsigned char)p[6];
  if (7 < n) s->last[7] = (unsigned char)p[7];
  s->lastn = (bg_size)n;
  bg_file.bytes += (bg_size)n;
  return s;
}
#else
static inline bg_ofstream *bg_ofstream__write(bg_ofstream *s, const char *p, long n) {
  __CPROVER_assert(n == 4, "ABSTRACTION record-level writes are one 32-bit field");
  __CPROVER_assert(!bg_SYSTEM_IS_BIG_ENDIAN, "ABSTRACTION record level assumes the little-endian host (codec units cover both)");
  VertexIndex v = *(const VertexIndex *)p;
  if (s->base.fail) return s;
  bg_file.bytes += 4;
  if (!s->inrec) { s->first = v; s->inrec = 1; bg_file.tail = 4; }
  else {
    s->inrec = 0; bg_file.tail = 0;
    if (s->first == G_P && v == G_Q) bg_file.nPQ++;
    else if (s->first == G_Q && v == G_P) bg_file.nQP++;
    else {
      bg_file.nOther++;
      if ((bg_size)s->first + 1 > bg_file.otherBound) bg_file.otherBound = (bg_size)s->first + 1;
      if ((bg_size)v + 1 > bg_file.otherBound) bg_file.otherBound = (bg_size)v + 1;
    }
  }
  return s;
}
#endif
/* std::reverse_copy over at most 8 bytes (the byte-order swap) */
static inline void bg_reverse_copy_u8(const unsigned char *first, const unsigned char *last, unsigned char *d) {
  long n = last - first;
  __CPROVER_assert(n >= 0 && n <= 8, "ABSTRACTION reverse_copy of at most 8 bytes");
  /* unrolled: k = 0..7 */
  if (0 < n) d[0] = first[n - 1 - 0];
  if (1 < n) d[1] = first[n - 1 - 1];
  if (2 < n) d[2] = first[n - 1 - 2];
  if (3 < n) d[3] = first[n - 1 - 3];
  if (4 < n) d[4] = first[n - 1 - 4];
  if (5 < n) d[5] = first[n - 1 - 5];
  if (6 < n) d[6] = first[n - 1 - 6];
  if (7 < n) d[7] = first[n - 1 - 7];
}

/* --------------------------------------------- vector<EdgeWeight>, WeightMatrix */
static inline void bg_vec_real__ctor_2(bg_vec_real *v, bg_size n, const bg_real *x) { v->n = n; v->vP = v->vQ = *x; }
static inline bg_real *bg_vec_real__index(bg_vec_real *v, bg_size i) {
  BG_PRE(i < v->n, "vector<EdgeWeight>::operator[] index out of range");
  if (i == G_P) return &v->vP;
  if (i == G_Q) return &v->vQ;
  bg_scratch_real = (bg_real)nondet_bg_size();
  return &bg_scratch_real;
}
static inline void bg_mat_real__ctor_2(bg_mat_real *a, bg_size n, const bg_vec_real *row) {
  a->n = n; a->m = row->n; a->rowP = *row; a->rowQ = *row;
}
static inline bg_vec_real *bg_mat_real__index(bg_mat_real *a, bg_size i) {
  BG_PRE(i < a->n, "WeightMatrix::operator[] index out of range");
  if (i == G_P) return &a->rowP;
  if (i == G_Q) return &a->rowQ;
  bg_scratch_vec_real.n = a->m;
  bg_scratch_vec_real.vP = (bg_real)nondet_bg_size();
  bg_scratch_vec_real.vQ = (bg_real)nondet_bg_size();
  return &bg_scratch_vec_real;
}

/* --------------------------------------------- path searches: vector<VertexIndex>, vector<bool>, queue */
static inline void bg_vec_u__ctor_2(bg_vec_u *v, bg_size n, const VertexIndex *x) { v->n = n; v->vP = v->vQ = *x; }
static inline VertexIndex *bg_vec_u__index(bg_vec_u *v, bg_size i) {
  BG_PRE(i < v->n, "vector<VertexIndex>::operator[] index out of range");
  if (i == G_P) return &v->vP;
  if (i == G_Q) return &v->vQ;
  bg_scratch_u = nondet_vertex();
  return &bg_scratch_u;
}
static inline const VertexIndex *bg_vec_u__index_c(const bg_vec_u *v, bg_size i) {
  BG_PRE(i < v->n, "vector<VertexIndex>::operator[] index out of range");
  if (i == G_P) return &v->vP;
  if (i == G_Q) return &v->vQ;
  bg_scratch_u = nondet_vertex();
  return &bg_scratch_u;
}
static inline void bg_vec_b__ctor_2(bg_vec_b *v, bg_size n, const bg_bool *x) {
  v->n = n; v->vP = v->vQ = *x;
  __CPROVER_assert(!*x, "ABSTRACTION vector<bool> is created all-false");
  v->nTrue = 0; v->restTrue = 0; v->lastValid = 0; v->lastI = 0; v->lastB = 0;
}
static inline bg_bitref bg_vec_b__index(bg_vec_b *v, bg_size i) {
  BG_PRE(i < v->n, "vector<bool>::operator[] index out of range");
  bg_bitref r; r.v = v; r.i = i;
  return r;
}
/* reading an unobserved bit: unknown, but consistent with the count of true bits */
static inline bg_bool bg_bitref__tobool(const bg_bitref *r) { /* r->v is not const: ghost bookkeeping */
  if (r->i == G_P) return r->v->vP;
  if (r->i == G_Q) return r->v->vQ;
  if (r->v->lastValid && r->v->lastI == r->i) return r->v->lastB;
  bg_bool b = nondet_bg_bool();
  BG_ASSUME(!b || r->v->restTrue > 0);
  BG_ASSUME(b || r->v->restTrue + BG_VECB_OBS(*r->v) < r->v->n); /* a false bit leaves room */
  r->v->lastValid = 1; r->v->lastI = r->i; r->v->lastB = b;       /* (ghost write: reads stay consistent) */
  return b;
}
/* writing: the library only ever sets a bit it has just read as false, or re-sets a true one; the ghost
   count follows the observed cells exactly and the others through the value read before */
static inline void bg_bitref__assign(bg_bitref *r, bg_bool x) {
  bg_vec_b *v = r->v;
  if (r->i == G_P) { if (x && !v->vP) v->nTrue++; if (!x && v->vP) v->nTrue--; v->vP = x; }
  else if (r->i == G_Q) { if (x && !v->vQ) v->nTrue++; if (!x && v->vQ) v->nTrue--; v->vQ = x; }
  else {
    /* an unobserved bit: was it set before?  unknown -> both outcomes */
    bg_bool was;
    if (v->lastValid && v->lastI == r->i) was = v->lastB;
    else {
      was = nondet_bg_bool();
      BG_ASSUME(!was || v->restTrue > 0);
      BG_ASSUME(was || v->restTrue + BG_VECB_OBS(*v) < v->n);
    }
    if (x && !was) { v->restTrue++; v->nTrue++; }
    if (!x && was) { v->restTrue--; v->nTrue--; }
    v->lastValid = 1; v->lastI = r->i; v->lastB = x;
  }
}
static inline void bg_queue_u__ctor(bg_queue_u *q) {
  q->nP = q->nQ = q->nO = 0; q->bound = 0; q->cur = 0; q->curValid = 0;
  q->pushed = q->popped = 0; q->pushedP = q->pushedQ = 0;
}
static inline void bg_queue_u__push(bg_queue_u *q, const VertexIndex *xp) {
  VertexIndex x = *xp;
  BG_ASSUME(BG_QUEUE_LEN(*q) + 1 < BG_CAP && q->pushed + 1 < BG_CAP);
  if (BG_IS_P(x)) { q->nP++; q->pushedP++; }
  else if (BG_IS_Q(x)) { q->nQ++; q->pushedQ++; }
  else q->nO++;
  if ((bg_size)x + 1 > q->bound) q->bound = (bg_size)x + 1;
  q->pushed++;
}
static inline bg_bool bg_queue_u__empty(const bg_queue_u *q) { return BG_QUEUE_LEN(*q) == 0; }
static inline void bg__queue_choose(bg_queue_u *q) {
  if (!q->curValid) {
    VertexIndex x = nondet_vertex();
    BG_ASSUME((bg_size)x < q->bound);
    BG_ASSUME(!BG_IS_P(x) || q->nP > 0);
    BG_ASSUME(!BG_IS_Q(x) || q->nQ > 0);
    BG_ASSUME(!BG_IS_O(x) || q->nO > 0);
    q->cur = x; q->curValid = 1;
  }
}
static inline VertexIndex *bg_queue_u__front(bg_queue_u *q) {
  BG_PRE(BG_QUEUE_LEN(*q) > 0, "front() of an empty queue");
  bg__queue_choose(q);
  return &q->cur;
}
static inline void bg_queue_u__pop(bg_queue_u *q) {
  BG_PRE(BG_QUEUE_LEN(*q) > 0, "pop() of an empty queue");
  bg__queue_choose(q);
  if (BG_IS_P(q->cur)) q->nP--;
  else if (BG_IS_Q(q->cur)) q->nQ--;
  else q->nO--;
  q->curValid = 0;
  q->popped++;
}
static inline void bg_preds__ctor_2(bg_preds *p, const bg_vec_sz *a, const bg_vec_u *b) { p->first = *a; p->second = *b; }
static inline void bg_mpreds__ctor_2(bg_mpreds *p, const bg_vec_sz *a, const bg_adj *b) { p->first = *a; p->second = *b; }

/* --------------------------------------------- std::list<Edge> as constructor argument (read-only) */
static inline void bg__eseq_arrive(bg_edgeseq_it *it) {
  if (BG_ESEQ_LEFT(*it) > 0) {
    int k = nondet_int();
    BG_ASSUME(k >= 0 && k <= 2 && (k != 0 || it->remPQ > 0) && (k != 1 || it->remQP > 0) && (k != 2 || it->remOther > 0));
    if (k == 0) { it->cur.first = G_P; it->cur.second = G_Q; }
    else if (k == 1) { it->cur.first = G_Q; it->cur.second = G_P; }
    else {
      VertexIndex a = nondet_vertex(), b = nondet_vertex();
      BG_ASSUME(!(a == G_P && b == G_Q) && !(a == G_Q && b == G_P) && (bg_size)a < it->bound && (bg_size)b < it->bound);
      it->cur.first = a; it->cur.second = b;
    }
  }
}
static inline bg_edgeseq_it bg_edgeseq__begin(const bg_edgeseq *s) {
  bg_edgeseq_it it;
  it.remPQ = s->nPQ; it.remQP = s->nQP; it.remOther = s->nOther; it.bound = s->bound;
  it.cur.first = it.cur.second = 0;
  bg__eseq_arrive(&it);
  return it;
}
static inline bg_edgeseq_it bg_edgeseq__end(const bg_edgeseq *s) {
  bg_edgeseq_it it;
  it.remPQ = it.remQP = it.remOther = 0; it.bound = s->bound; it.cur.first = it.cur.second = 0;
  return it;
}
static inline bg_bool bg_edgeseq_it__eq(bg_edgeseq_it a, bg_edgeseq_it b) {
  __CPROVER_assert(BG_ESEQ_LEFT(a) == 0 || BG_ESEQ_LEFT(b) == 0, "ABSTRACTION list<Edge> iterators are only compared with end()");
  return BG_ESEQ_LEFT(a) == BG_ESEQ_LEFT(b);
}
static inline bg_bool bg_edgeseq_it__ne(bg_edgeseq_it a, bg_edgeseq_it b) { return !bg_edgeseq_it__eq(a, b); }
static inline const bg_edge *bg_edgeseq_it__deref(const bg_edgeseq_it *it) {
  BG_PRE(BG_ESEQ_LEFT(*it) > 0, "dereference end() list<Edge> iterator");
  return &it->cur;
}
static inline bg_edgeseq_it *bg_edgeseq_it__preinc(bg_edgeseq_it *it) {
  BG_PRE(BG_ESEQ_LEFT(*it) > 0, "increment end() list<Edge> iterator");
  if (it->cur.first == G_P && it->cur.second == G_Q) it->remPQ--;
  else if (it->cur.first == G_Q && it->cur.second == G_P) it->remQP--;
  else it->remOther--;
  bg__eseq_arrive(it);
  return it;
}
static inline const VertexIndex *bg_max_u(const VertexIndex *a, const VertexIndex *b) { return *a < *b ? b : a; }

/* --------------------------------------------- std::list<LabeledEdge<VLabel>> as constructor argument */
static inline void bg__leseq_arrive(bg_ledgeseq_VLabel_it *it) {
  if (BG_ESEQ_LEFT(*it) > 0) {
    int k = nondet_int();
    BG_ASSUME(k >= 0 && k <= 2 && (k != 0 || it->remPQ > 0) && (k != 1 || it->remQP > 0) && (k != 2 || it->remOther > 0));
    /* list order: before any entry of the pair has been met, the orientation that comes first is met first */
    if (it->remPQ == it->nPQ && it->remQP == it->nQP && it->nPQ > 0 && it->nQP > 0)
      BG_ASSUME(k == 2 || (k == 0) == (it->pqBeforeQp != 0));
    it->cur.f2.v = nondet_int();
    if (k == 0) { it->cur.f0 = G_P; it->cur.f1 = G_Q; if (it->remPQ == it->nPQ) it->cur.f2 = it->firstPQ; }
    else if (k == 1) { it->cur.f0 = G_Q; it->cur.f1 = G_P; if (it->remQP == it->nQP) it->cur.f2 = it->firstQP; }
    else {
      VertexIndex a = nondet_vertex(), b = nondet_vertex();
      BG_ASSUME(!(a == G_P && b == G_Q) && !(a == G_Q && b == G_P) && (bg_size)a < it->bound && (bg_size)b < it->bound);
      it->cur.f0 = a; it->cur.f1 = b;
    }
  }
}
static inline bg_ledgeseq_VLabel_it bg_ledgeseq_VLabel__begin(const bg_ledgeseq_VLabel *s) {
  bg_ledgeseq_VLabel_it it;
  it.remPQ = it.nPQ = s->nPQ; it.remQP = it.nQP = s->nQP; it.remOther = s->nOther; it.bound = s->bound;
  it.firstPQ = s->firstPQ; it.firstQP = s->firstQP; it.pqBeforeQp = s->pqBeforeQp;
  it.cur.f0 = it.cur.f1 = 0; it.cur.f2.v = 0;
  bg__leseq_arrive(&it);
  return it;
}
static inline bg_ledgeseq_VLabel_it bg_ledgeseq_VLabel__end(const bg_ledgeseq_VLabel *s) {
  bg_ledgeseq_VLabel_it it;
  it.remPQ = it.remQP = it.remOther = 0; it.nPQ = s->nPQ; it.nQP = s->nQP; it.bound = s->bound;
  it.firstPQ = s->firstPQ; it.firstQP = s->firstQP; it.pqBeforeQp = s->pqBeforeQp;
  it.cur.f0 = it.cur.f1 = 0; it.cur.f2.v = 0;
  return it;
}
static inline bg_bool bg_ledgeseq_VLabel_it__eq(bg_ledgeseq_VLabel_it a, bg_ledgeseq_VLabel_it b) {
  __CPROVER_assert(BG_ESEQ_LEFT(a) == 0 || BG_ESEQ_LEFT(b) == 0, "ABSTRACTION list<LabeledEdge> iterators are only compared with end()");
  return BG_ESEQ_LEFT(a) == BG_ESEQ_LEFT(b);
}
static inline bg_bool bg_ledgeseq_VLabel_it__ne(bg_ledgeseq_VLabel_it a, bg_ledgeseq_VLabel_it b) { return !bg_ledgeseq_VLabel_it__eq(a, b); }
static inline const bg_ledge_VLabel *bg_ledgeseq_VLabel_it__deref(const bg_ledgeseq_VLabel_it *it) {
  BG_PRE(BG_ESEQ_LEFT(*it) > 0, "dereference end() list<LabeledEdge> iterator");
  return &it->cur;
}
static inline bg_ledgeseq_VLabel_it *bg_ledgeseq_VLabel_it__preinc(bg_ledgeseq_VLabel_it *it) {
  BG_PRE(BG_ESEQ_LEFT(*it) > 0, "increment end() list<LabeledEdge> iterator");
  if (it->cur.f0 == G_P && it->cur.f1 == G_Q) it->remPQ--;
  else if (it->cur.f0 == G_Q && it->cur.f1 == G_P) it->remQP--;
  else it->remOther--;
  bg__leseq_arrive(it);
  return it;
}

/* --------------------------------------------- std::unordered_set<VertexIndex> (read-only use) */
/* the element under the cursor: any of the classes still ahead */
static inline void bg__uset_arrive(bg_uset_it *it) {
  if (BG_USET_LEFT(*it) > 0) {
    VertexIndex x = nondet_vertex();
    BG_ASSUME(!BG_IS_P(x) || it->remP);
    BG_ASSUME(!BG_IS_Q(x) || it->remQ);
    BG_ASSUME(!BG_IS_O(x) || (it->remRest > 0 && (bg_size)x < it->restBound));
    it->cur = x;
  }
}
static inline bg_uset_it bg_uset_u__begin(const bg_uset_u *s) {
  bg_uset_it it;
  it.remP = s->hasP; it.remQ = s->hasQ; it.remRest = s->restCount; it.restBound = s->restBound; it.cur = 0; it.found = 0; it.walking = 1;
  bg__uset_arrive(&it);
  return it;
}
static inline bg_uset_it bg_uset_u__end(const bg_uset_u *s) {
  bg_uset_it it;
  (void)s;
  it.remP = 0; it.remQ = 0; it.remRest = 0; it.restBound = 0; it.cur = 0; it.found = 0; it.walking = 1;
  return it;
}
/* find(x): end() unless x is a member (membership of an unobserved value is unknown) */
static inline bg_uset_it bg_uset_u__find(const bg_uset_u *s, const VertexIndex *xp) {
  bg_uset_it it = bg_uset_u__end(s);
  VertexIndex x = *xp;
  it.walking = 0;
  it.cur = x;
  it.found = BG_IS_P(x) ? s->hasP : BG_IS_Q(x) ? s->hasQ : (s->restCount > 0 && nondet_bg_bool());
  return it;
}
static inline bg_bool bg__uset_at_end(bg_uset_it a) { return a.walking ? BG_USET_LEFT(a) == 0 : !a.found; }
/* comparison against end() only (all the library does) */
static inline bg_bool bg_uset_it__eq(bg_uset_it a, bg_uset_it b) {
  __CPROVER_assert(bg__uset_at_end(a) || bg__uset_at_end(b), "ABSTRACTION hash iterators are only compared with end()");
  return bg__uset_at_end(a) == bg__uset_at_end(b);
}
static inline bg_bool bg_uset_it__ne(bg_uset_it a, bg_uset_it b) { return !bg_uset_it__eq(a, b); }
static inline const VertexIndex *bg_uset_it__deref(const bg_uset_it *it) {
  BG_PRE(!bg__uset_at_end(*it), "dereference end() hash iterator");
  return &it->cur;
}
static inline bg_uset_it *bg_uset_it__preinc(bg_uset_it *it) {
  BG_PRE(!bg__uset_at_end(*it), "increment end() hash iterator");
  __CPROVER_assert(it->walking, "ABSTRACTION increment of a find() result");
  if (BG_IS_P(it->cur)) it->remP = 0;
  else if (BG_IS_Q(it->cur)) it->remQ = 0;
  else it->remRest--;
  bg__uset_arrive(it);
  return it;
}
static inline bg_size bg_uset_u__size(const bg_uset_u *s) {
  return (s->hasP ? 1 : 0) + (s->hasQ ? 1 : 0) + s->restCount;
}

/* --------------------------------------------- std::vector<size_t> results */
static inline void bg_vec_sz__ctor(bg_vec_sz *v) { v->n = 0; v->vP = v->vQ = 0; }
static inline void bg_vec_sz__ctor_1(bg_vec_sz *v, bg_size n) { v->n = n; v->vP = v->vQ = 0; }
static inline void bg_vec_sz__ctor_2(bg_vec_sz *v, bg_size n, const bg_size *x) {
  v->n = n; v->vP = v->vQ = *x;
}
static inline bg_size bg_vec_sz__size(const bg_vec_sz *v) { return v->n; }
static inline bg_size *bg_vec_sz__index(bg_vec_sz *v, bg_size i) {
  BG_PRE(i < v->n, "vector<size_t>::operator[] index out of range");
  if (i == G_P) return &v->vP;
  if (i == G_Q) return &v->vQ;
  bg_scratch_sz = nondet_bg_size();
  return &bg_scratch_sz;
}
static inline const bg_size *bg_vec_sz__index_c(const bg_vec_sz *v, bg_size i) {
  BG_PRE(i < v->n, "vector<size_t>::operator[] index out of range");
  if (i == G_P) return &v->vP;
  if (i == G_Q) return &v->vQ;
  bg_scratch_sz = nondet_bg_size();
  return &bg_scratch_sz;
}
/* vector<vector<size_t>> : rows G_P and G_Q observed */
static inline void bg_mat_sz__ctor(bg_mat_sz *a) { a->n = 0; a->m = 0; bg_vec_sz__ctor(&a->rowP); bg_vec_sz__ctor(&a->rowQ); }
static inline void bg_mat_sz__ctor_2(bg_mat_sz *a, bg_size n, const bg_vec_sz *row) {
  a->n = n; a->m = row->n; a->rowP = *row; a->rowQ = *row;
}
static inline void bg_mat_sz__resize(bg_mat_sz *a, bg_size n, const bg_vec_sz *row) {
  __CPROVER_assert(a->n == 0, "ABSTRACTION matrix resize from non-empty");
  bg_mat_sz__ctor_2(a, n, row);
}
static inline bg_vec_sz *bg_mat_sz__index(bg_mat_sz *a, bg_size i) {
  BG_PRE(i < a->n, "vector<vector<size_t>>::operator[] index out of range");
  if (i == G_P) return &a->rowP;
  if (i == G_Q) return &a->rowQ;
  bg_scratch_vec_sz.n = a->m;
  bg_scratch_vec_sz.vP = nondet_bg_size();
  bg_scratch_vec_sz.vQ = nondet_bg_size();
  return &bg_scratch_vec_sz;
}

/* after a call replaced by its contract the cache content is unknown: forget it */
static inline void bg_ghost_invalidate(void) {
  bg_ghost_scratch_reset();
  bg_ghost_frontier.a = 0;
  BG_CAT(bg_scratch_val_, BG_L).valid = 0;
  BG_CAT(bg_scratch_val_, BG_L).out = 0;
}
/* variants for callees that cannot mutate any graph: the caller's frontier stays attached */
static inline void bg_ghost_reset_keep_frontier(void) {
  bg_ghost_scratch_reset();
  BG_CAT(BG_CAT(bg_map_, BG_L), __checkin)();
  BG_CAT(bg_scratch_val_, BG_L).valid = 0;
  BG_CAT(bg_scratch_val_, BG_L).out = 0;
}
static inline void bg_ghost_invalidate_keep_frontier(void) {
  bg_ghost_scratch_reset();
  BG_CAT(bg_scratch_val_, BG_L).valid = 0;
  BG_CAT(bg_scratch_val_, BG_L).out = 0;
}
static inline void bg_ghost_reset_all(void) {
  bg_ghost_scratch_reset();
  bg_ghost_frontier.a = 0; /* a callee may change rows below the frontier */
  BG_CAT(BG_CAT(bg_map_, BG_L), __checkin)();
  BG_CAT(bg_scratch_val_, BG_L).valid = 0;
  BG_CAT(bg_scratch_val_, BG_L).out = 0;
}
#endif
